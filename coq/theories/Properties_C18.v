(* C18 — the minimizer never leaves the box and reports what it actually reached.
   This file holds only the property theorems; each is closed by [exact] of a lemma of MinimProofs.v and followed by
   Print Assumptions.
   Model: Minim.v, the control skeleton of minimize_levenberg_marquardt and minimize_levenberg_marquardt_bounded (both
   dampings), hand-written; tie H: ./check C18 runs the extracted model on doubles against the implementation (LAPACK
   build) and compares the sequence of states passed to the call-backs, status, counts, x, reported cost and norm.
   The user's cost function, gradient and Hessian, the linear solver, the norm and the finiteness test are Section
   variables: the theorems hold for ANY of them ("for any cost function").  About the scalars only a total pre-order is
   assumed (it holds for the reals, C18_feasible_over_the_reals below, and for doubles without NaN), so the statements
   cover rounding: they do not rely on x + frac*dx reaching the bound exactly.
   Second model, tie G: generated/Gen_Minim.v lists, for the three bounded drivers and for line_search /
   line_search_gradient_check, every statement of the CURRENT sources that writes one of the vectors handed to the
   user's call-backs (translated on every run by tools/gen_minim.py); C18_generated_drivers_are_safe re-checks that no
   arithmetic update is left without its clamp, and C18_call_back_states_feasible_* conclude, for ANY control flow, that
   all five algorithms call the user only inside the box.
   Third model, tie H: MinimCG.v, the line search (bracketing, cubic refinement, Wolfe test, error paths) and the
   conjugate-gradient drivers written statement by statement; ./check C18 compares it with the implementation like the
   Levenberg model.  C18_line_search_partial and C18_conjugate_gradient_partial prove feasibility, reported cost and the
   iteration bound for it.
   MinimLBFGS.v is the bounded L-BFGS driver in the same style (C18_lbfgs_partial).
   _partial: (1) for conjugate gradient and L-BFGS 'SUCCESS is sound' and 'does not exceed the starting cost' need
   arithmetic the abstract scalar type does not have (Armijo condition; a zero direction component leaves a variable where
   it is) and are checked on every run of the harness, not proved; their feasibility theorems carry the assumption
   SInvokeFree / its analogue for the line search entered without bounds; the unbounded drivers have the reported-cost and iteration theorems.  (2) "the call
   terminates": C18_outer_loop_terminates_partial bounds the outer loop; the inner loop ends when the damping, doubled
   from its restart value, passes its maximum, which is arithmetic the abstract scalar type does not have; the
   harness observes termination under an alarm. *)
From Coq Require Import ZArith List Bool Reals Lra.
From Adept Require Import Scalar Minim MinimProofs MinimReal RealOps MinimFlow MinimFlowProofs MinimCG MinimCGProofs MinimLBFGS MinimLBFGSProofs MinimTerm.
From AdeptGen Require Import Gen_Minim.
Import ListNotations.
Local Open Scope Z_scope.

Section AnyProblem.
Context {T : Type} (O : Ops T).
Variable cost : list T -> T.
Variable grad : list T -> list T.
Variable hess : list T -> list (list T).
Variable solve : list (list T) -> list T -> list T.
Variable norm2 : list T -> T.
Variable isfinite : T -> bool.
Variable ofnat : nat -> T.
Hypothesis le_total : forall a b, oleb O a b = true \/ oleb O b a = true.
Hypothesis le_trans : forall a b c, oleb O a b = true -> oleb O b c = true -> oleb O a c = true.
Hypothesis lt_le : forall a b, oltb O a b = negb (oleb O b a).
Hypothesis grad_len : forall x, length (grad x) = length x.
Hypothesis solve_len : forall m g, length (solve m g) = length g.
Notation run_bounded := (lm_bounded O cost grad hess solve norm2 isfinite ofnat).
Notation run_unbounded := (lm_unbounded O cost grad hess solve norm2 isfinite ofnat).

(* every state passed to a call-back (cost, cost+gradient+Hessian, report_progress) and the returned state lie in the box *)
Theorem C18_feasible_partial : forall fo fi s additive lo hi x m1 inf, valid_bounds O lo hi x = true ->
  let r := run_bounded fo fi s additive lo hi x m1 inf in
  (forall e, In e (r_log r) -> within O lo hi (ev_state e)) /\ within O lo hi (r_x r).
Proof. exact (bounded_feasible O cost grad hess solve norm2 isfinite ofnat le_total le_trans lt_le grad_len solve_len). Qed.
(* the reported cost is the user's cost at the returned state and does not exceed the starting cost, which is the cost at
   the start moved onto the box *)
Theorem C18_reported_cost_partial : forall fo fi s additive lo hi x m1 inf, valid_bounds O lo hi x = true ->
  let r := run_bounded fo fi s additive lo hi x m1 inf in
  r_status r <> MOutOfFuel -> r_cost r = cost (r_x r) /\ oleb O (r_cost r) (r_start_cost r) = true.
Proof. exact (bounded_reported_cost O cost grad hess solve norm2 isfinite ofnat le_total le_trans lt_le grad_len solve_len). Qed.
Theorem C18_start_cost_partial : forall fo fi s additive lo hi x m1 inf, valid_bounds O lo hi x = true ->
  r_start_cost (run_bounded (S fo) fi s additive lo hi x m1 inf) = cost (clamp O lo hi x).
Proof. exact (bounded_start_cost O cost grad hess solve norm2 isfinite ofnat). Qed.
(* SUCCESS: the norm over the components that are not flagged is at most the threshold, every flagged component is at the
   bound it is flagged for, and no flagged component has a gradient that slopes away from its bound *)
Theorem C18_converged_sound_partial : forall fo fi s additive lo hi x m1 inf, valid_bounds O lo hi x = true ->
  let r := run_bounded fo fi s additive lo hi x m1 inf in r_status r = MSuccess -> sound O grad norm2 s lo hi r.
Proof. exact (bounded_converged_sound O cost grad hess solve norm2 isfinite ofnat le_total le_trans lt_le grad_len solve_len). Qed.
Theorem C18_iterations_partial : forall fo fi s additive lo hi x m1 inf, valid_bounds O lo hi x = true -> 0 < max_it s ->
  0 <= r_iter (run_bounded fo fi s additive lo hi x m1 inf) <= max_it s.
Proof. exact (bounded_iterations O cost grad hess solve norm2 isfinite ofnat le_total le_trans lt_le grad_len solve_len). Qed.
Theorem C18_outer_loop_terminates_partial : forall fo fi s additive lo hi x m1 inf, valid_bounds O lo hi x = true -> 0 < max_it s -> (Z.to_nat (max_it s) <= fo)%nat ->
  r_status (run_bounded fo fi s additive lo hi x m1 inf) <> MOutOfFuel.
Proof. exact (bounded_outer_fuel O cost grad hess solve norm2 isfinite ofnat). Qed.
(* documented statuses *)
Theorem C18_invalid_bounds_partial : forall fo fi s additive lo hi x m1 inf, valid_bounds O lo hi x = false ->
  let r := run_bounded fo fi s additive lo hi x m1 inf in r_status r = MInvalidBounds /\ r_log r = [] /\ r_x r = x.
Proof. exact (bounded_invalid_bounds O cost grad hess solve norm2 isfinite ofnat). Qed.
Theorem C18_nonfinite_cost_partial : forall fo fi s additive lo hi x m1 inf, valid_bounds O lo hi x = true -> isfinite (cost (clamp O lo hi x)) = false ->
  let r := run_bounded (S fo) fi s additive lo hi x m1 inf in r_status r = MInvalidCost /\ r_x r = clamp O lo hi x.
Proof. exact (bounded_nonfinite_cost O cost grad hess solve norm2 isfinite ofnat). Qed.
Theorem C18_nonfinite_gradient_partial : forall fo fi s additive lo hi x m1 inf, valid_bounds O lo hi x = true -> isfinite (cost (clamp O lo hi x)) = true ->
  existsb (fun v => negb (isfinite v)) (grad (clamp O lo hi x)) = true ->
  let r := run_bounded (S fo) fi s additive lo hi x m1 inf in r_status r = MInvalidGradient /\ r_x r = clamp O lo hi x.
Proof. exact (bounded_nonfinite_gradient O cost grad hess solve norm2 isfinite ofnat). Qed.
(* the unbounded version: reported cost, monotonicity, SUCCESS, iteration count *)
Theorem C18_unbounded_partial : forall fo fi s additive x m1, outer_post_u O cost grad norm2 s 0 (run_unbounded fo fi s additive x m1).
Proof. exact (lm_unbounded_spec O cost grad hess solve norm2 isfinite ofnat le_total le_trans). Qed.
End AnyProblem.
Print Assumptions C18_feasible_partial.
Print Assumptions C18_reported_cost_partial.
Print Assumptions C18_start_cost_partial.
Print Assumptions C18_converged_sound_partial.
Print Assumptions C18_iterations_partial.
Print Assumptions C18_outer_loop_terminates_partial.
Print Assumptions C18_invalid_bounds_partial.
Print Assumptions C18_nonfinite_cost_partial.
Print Assumptions C18_nonfinite_gradient_partial.
Print Assumptions C18_unbounded_partial.

(* ---- all five algorithms, from the generated atoms *)
Definition cg_program : list atom := minimize_conjugate_gradient_bounded_atoms ++ line_search_atoms ++ line_search_gradient_check_atoms.
Definition lbfgs_program : list atom := minimize_limited_memory_bfgs_bounded_atoms ++ line_search_atoms ++ line_search_gradient_check_atoms.
Definition lm_program : list atom := minimize_levenberg_marquardt_bounded_atoms.
(* re-proved against the current sources on every run: every driver clamps x before its first call-back, and no statement
   updates a state vector arithmetically without clamping it in the next statement; the bounds are passed to every callee *)
Theorem C18_generated_drivers_are_safe :
  safe cg_program = true /\ safe lbfgs_program = true /\ safe lm_program = true
  /\ minimize_conjugate_gradient_bounded_entry_ok = true /\ minimize_limited_memory_bfgs_bounded_entry_ok = true /\ minimize_levenberg_marquardt_bounded_entry_ok = true.
Proof. exact (conj eq_refl (conj eq_refl (conj eq_refl (conj eq_refl (conj eq_refl eq_refl))))). Qed.
Section AnyControlFlow.
Context {T : Type} (O : Ops T).
Hypothesis le_total : forall a b, oleb O a b = true \/ oleb O b a = true.
Hypothesis le_trans : forall a b c, oleb O a b = true -> oleb O b c = true -> oleb O a c = true.
Hypothesis lt_le : forall a b, oltb O a b = negb (oleb O b a).
(* conjugate gradient (both variants) with the line search: whatever the order and number of times its statements run and
   whatever the arithmetic produces, every state handed to a call-back is in the box *)
Theorem C18_call_back_states_feasible_cg_partial : forall lo hi, box_ok O lo hi -> forall tr s s' obs, (forall a, In a tr -> In a cg_program) ->
  all_within O lo hi s -> exec O lo hi s tr s' obs -> Forall (within O lo hi) obs /\ all_within O lo hi s'.
Proof. exact (fun lo hi Hb tr s s' obs => program_safe O le_total lt_le lo hi Hb cg_program tr s s' obs (proj1 C18_generated_drivers_are_safe)). Qed.
Theorem C18_call_back_states_feasible_lbfgs_partial : forall lo hi, box_ok O lo hi -> forall tr s s' obs, (forall a, In a tr -> In a lbfgs_program) ->
  all_within O lo hi s -> exec O lo hi s tr s' obs -> Forall (within O lo hi) obs /\ all_within O lo hi s'.
Proof. exact (fun lo hi Hb tr s s' obs => program_safe O le_total lt_le lo hi Hb lbfgs_program tr s s' obs (proj1 (proj2 C18_generated_drivers_are_safe))). Qed.
Theorem C18_call_back_states_feasible_lm_partial : forall lo hi, box_ok O lo hi -> forall tr s s' obs, (forall a, In a tr -> In a lm_program) ->
  all_within O lo hi s -> exec O lo hi s tr s' obs -> Forall (within O lo hi) obs /\ all_within O lo hi s'.
Proof. exact (fun lo hi Hb tr s s' obs => program_safe O le_total lt_le lo hi Hb lm_program tr s s' obs (proj1 (proj2 (proj2 C18_generated_drivers_are_safe)))). Qed.
End AnyControlFlow.
Print Assumptions C18_generated_drivers_are_safe.
Print Assumptions C18_call_back_states_feasible_cg_partial.
Print Assumptions C18_call_back_states_feasible_lbfgs_partial.
Print Assumptions C18_call_back_states_feasible_lm_partial.

(* ---- third model (hand-written, tie H): the line search and the bounded conjugate-gradient driver, MinimCG.v ---- *)
Section ConjugateGradient.
Context {T : Type} (O : Ops T).
Variable cost : list T -> T.
Variable grad : list T -> list T.
Variable norm2 : list T -> T.
Variable osqrt : T -> T.
Variable isfinite : T -> bool.
Hypothesis le_total : forall a b, oleb O a b = true \/ oleb O b a = true.
Hypothesis lt_le : forall a b, oltb O a b = negb (oleb O b a).
(* the line search, for any predicate [good] that holds of the start and of every point x + (ss*ds)*direction (clamped when
   bounds are given): only good states are evaluated, the state left in x is good, and the cost left in cost_function_ is
   the user's cost at that state - through the bracketing and the cubic refinement, the error paths and the iteration limit *)
Theorem C18_line_search_partial : forall s k bnd x dir step0 curv bound_step cost_fn0 (good : list T -> Prop),
  good x -> (forall ds ss, good (point O bnd x dir ds ss)) -> cost_fn0 = cost x ->
  forall gradient utd samples log, Forall good log ->
  post cost good (line_search O cost grad norm2 osqrt isfinite s k bnd x dir step0 curv bound_step cost_fn0 gradient utd samples log).
Proof. exact (line_search_spec O cost grad norm2 osqrt isfinite le_total lt_le). Qed.
(* bounded conjugate gradient (Polak-Ribiere and Fletcher-Reeves): every call-back state and the returned state are in the
   box, the reported cost is the cost at the returned state, the iteration count respects the maximum.  The hypothesis is
   the assumption already made in MinimFlow.v: a line search entered without bounds, which the driver does only when no
   component of the direction points to a finite bound, cannot leave the box *)
Theorem C18_conjugate_gradient_partial : forall lo hi,
  (forall k ds x dir, inbox O lo hi x -> snd (fst (nearest_bound O k ds x lo hi dir 0 (cbig k, -1, 0))) < 0 ->
                      forall ds' ss, inbox O lo hi (point O None x dir ds' ss)) ->
  forall fuel s k fr x m1 inf, valid_bounds O lo hi x = true ->
  let r := cg_bounded O cost grad norm2 osqrt isfinite fuel s k fr lo hi x m1 inf in
  Forall (fun e => inbox O lo hi (ev_state e)) (r_log r) /\ inbox O lo hi (r_x r)
  /\ (r_status r <> MOutOfFuel -> r_cost r = cost (r_x r)) /\ (0 < g_max_it s -> 0 <= r_iter r <= g_max_it s).
Proof.
  exact (fun lo hi Hfree fuel s k fr x m1 inf Hv =>
           cg_bounded_spec O cost grad norm2 osqrt isfinite le_total lt_le lo hi (valid_bounds_box_le O le_total lo hi x Hv) Hfree fuel s k fr x m1 inf Hv).
Qed.
Theorem C18_conjugate_gradient_invalid_bounds_partial : forall lo hi fuel s k fr x m1 inf, valid_bounds O lo hi x = false ->
  let r := cg_bounded O cost grad norm2 osqrt isfinite fuel s k fr lo hi x m1 inf in r_status r = MInvalidBounds /\ r_log r = [] /\ r_x r = x.
Proof. exact (cg_bounded_invalid O cost grad norm2 osqrt isfinite). Qed.
(* bounded L-BFGS (MinimLBFGS.v: LbfgsData store, two-loop recursion, interpolated curvature coefficient, restart of the
   storage when a bound is met), same statement and same assumption *)
Theorem C18_lbfgs_partial : forall (ofz : Z -> T) lo hi,
  (forall k ds x dir, inbox O lo hi x -> snd (fst (nearest_bound O k ds x lo hi dir 0 (cbig k, -1, 0))) < 0 ->
                      forall ds' ss, inbox O lo hi (point O None x dir ds' ss)) ->
  forall fuel ls k x m1 inf, valid_bounds O lo hi x = true ->
  let r := lbfgs_bounded O cost grad norm2 osqrt isfinite ofz fuel ls k lo hi x m1 inf in
  Forall (fun e => inbox O lo hi (ev_state e)) (r_log r) /\ inbox O lo hi (r_x r)
  /\ (r_status r <> MOutOfFuel -> r_cost r = cost (r_x r)) /\ (0 < g_max_it (lb_cg ls) -> 0 <= r_iter r <= g_max_it (lb_cg ls)).
Proof.
  exact (fun ofz lo hi Hfree fuel ls k x m1 inf Hv =>
           lbfgs_bounded_spec O cost grad norm2 osqrt isfinite ofz le_total lt_le lo hi (valid_bounds_box_le O le_total lo hi x Hv) Hfree fuel ls k x m1 inf Hv).
Qed.
Theorem C18_lbfgs_invalid_bounds_partial : forall (ofz : Z -> T) lo hi fuel ls k x m1 inf, valid_bounds O lo hi x = false ->
  let r := lbfgs_bounded O cost grad norm2 osqrt isfinite ofz fuel ls k lo hi x m1 inf in r_status r = MInvalidBounds /\ r_log r = [] /\ r_x r = x.
Proof. exact (fun ofz => lbfgs_bounded_invalid O cost grad norm2 osqrt isfinite ofz). Qed.
(* the unbounded conjugate-gradient and L-BFGS drivers: reported cost and iteration count *)
Theorem C18_conjugate_gradient_unbounded_partial : forall fuel s k fr x m1 inf,
  let r := cg_unbounded O cost grad norm2 osqrt isfinite fuel s k fr x m1 inf in
  (r_status r <> MOutOfFuel -> r_cost r = cost (r_x r)) /\ (0 < g_max_it s -> 0 <= r_iter r <= g_max_it s).
Proof. exact (cg_unbounded_spec O cost grad norm2 osqrt isfinite le_total lt_le). Qed.
Theorem C18_lbfgs_unbounded_partial : forall (ofz : Z -> T) fuel ls k x m1 inf,
  let r := lbfgs_unbounded O cost grad norm2 osqrt isfinite ofz fuel ls k x m1 inf in
  (r_status r <> MOutOfFuel -> r_cost r = cost (r_x r)) /\ (0 < g_max_it (lb_cg ls) -> 0 <= r_iter r <= g_max_it (lb_cg ls)).
Proof. exact (fun ofz => lbfgs_unbounded_spec O cost grad norm2 osqrt isfinite ofz le_total lt_le). Qed.
End ConjugateGradient.
Print Assumptions C18_conjugate_gradient_unbounded_partial.
Print Assumptions C18_lbfgs_unbounded_partial.
Print Assumptions C18_lbfgs_partial.
Print Assumptions C18_lbfgs_invalid_bounds_partial.
Print Assumptions C18_line_search_partial.
Print Assumptions C18_conjugate_gradient_partial.
Print Assumptions C18_conjugate_gradient_invalid_bounds_partial.

(* "the call terminates", bounded Levenberg family over the reals, for ANY cost function: with max_it outer fuel and K+2
   inner fuel, where dlow * mult^K >= d_max and every damping value that can occur is <= 0 or >= dlow, the model never
   runs out of fuel, i.e. both loops end by themselves *)
Theorem C18_terminates_over_the_reals_partial : forall cost grad hess solve norm2 isfinite ofnat (s : settings (T:=R)) (dlow : R) (K : nat),
  (0 < dlow)%R -> (1 < d_mult s)%R -> (dlow <= d_restart s)%R -> (d_max s <= dlow * d_mult s ^ K)%R ->
  (0 < d_div s)%R -> (dlow * d_div s <= d_min s)%R ->
  forall fo fi additive lo hi x m1 inf, dok dlow (d_start s) -> 0 < max_it s -> (Z.to_nat (max_it s) <= fo)%nat -> (K + 2 <= fi)%nat ->
  let r := lm_bounded RO cost grad hess solve norm2 isfinite ofnat fo fi s additive lo hi x m1 inf in
  r_status r <> MOutOfFuel /\ r_status r <> MInnerOutOfFuel.
Proof. exact lm_bounded_terminates. Qed.
Print Assumptions C18_terminates_over_the_reals_partial.
(* its hypotheses hold for the default settings of Minimizer.h (damping min 1/128, max 1e5, multiplier 2, divider 5, start 0,
   restart 1/4) with dlow = 1/640 and K = 26: at most 28 trials in an inner loop *)
Example C18_default_settings_terminate :
  let s := mkSettings 100 (-1)%R (/10)%R (-1) (/128)%R 100000%R 2%R 5%R 0%R (/4)%R in
  (0 < /640)%R /\ (1 < d_mult s)%R /\ (/640 <= d_restart s)%R /\ (d_max s <= /640 * d_mult s ^ 26)%R /\ (0 < d_div s)%R
  /\ (/640 * d_div s <= d_min s)%R /\ dok (/640) (d_start s).
Proof. cbn [d_mult d_restart d_max d_div d_min d_start pow]. unfold dok. repeat split; try lra. Qed.

(* the order hypotheses are met by the real numbers: feasibility for every real cost function *)
Theorem C18_feasible_over_the_reals_partial : forall cost grad hess solve norm2 isfinite ofnat,
  (forall x, length (grad x) = length x) -> (forall m g, length (solve m g) = length g) ->
  forall fo fi s additive lo hi x m1 inf, valid_bounds RO lo hi x = true ->
  let r := lm_bounded RO cost grad hess solve norm2 isfinite ofnat fo fi s additive lo hi x m1 inf in
  (forall e, In e (r_log r) -> within RO lo hi (ev_state e)) /\ within RO lo hi (r_x r).
Proof. exact (fun cost grad hess solve norm2 isfinite ofnat Hg Hs => bounded_feasible RO cost grad hess solve norm2 isfinite ofnat RO_le_total RO_le_trans RO_lt_le Hg Hs). Qed.
Print Assumptions C18_feasible_over_the_reals_partial.

(* non-vacuity: over the integers (a total order), f(x) = (x-6)^2 on the box [0,6] from x = 0 with an exact Newton solver: the
   step is cut at the upper bound, the variable is flagged there, and the run ends with SUCCESS at the bound *)
Example C18_example :
  let cost := fun x : list Z => (nth 0 x 0 - 6) * (nth 0 x 0 - 6) in
  let grad := fun x : list Z => [2 * (nth 0 x 0 - 6)] in
  let hess := fun _ : list Z => [[2]] in
  let solve := fun (m : list (list Z)) (g : list Z) => [nth 0 g 0 / nth 0 (nth 0 m []) 1] in
  let s := mkSettings 10 (-1) 0 (-1) 0 100 2 5 0 1 in
  let r := lm_bounded ZOps cost grad hess solve (fun g => Z.abs (nth 0 g 0)) (fun _ => true) Z.of_nat 12 8 s false [0] [6] [0] (-1) 1000000 in
  valid_bounds ZOps [0] [6] [0] = true /\ r_status r = MSuccess /\ r_x r = [6] /\ r_bs r = [1] /\ r_cost r = 0 /\ r_iter r = 1.
Proof. vm_compute. repeat split. Qed.
