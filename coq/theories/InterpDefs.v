(* What tools/gen_interp.py emits (Gen_Interp.v): interp_get_indices_weights of interp.h as a table of comparisons, search
   loops and weight expressions; and its execution, generic in the scalar type. *)
From Coq Require Import List Arith Bool ZArith.
From Adept Require Import Scalar Interp.
Import ListNotations.

Inductive kidx := KLit (n : Z) | KJ | KJ1 | KEnd | KEndM1.          (* x(n), x(jj), x(jj+1), x(end), x(end-1) *)
Inductive wexp := WQ | WX (k : kidx) | WSub (a b : wexp) | WDiv (a b : wexp).
Inductive rel := RLt | RGt | RLe | RGe.
Record cmp3 := mkCmp { c_rel : rel; c_l : wexp; c_r : wexp }.
Inductive search := SearchUp | SearchDown.
Inductive iexp := ILit (n : Z) | ISizeM2.                             (* literal index / x.size()-2 *)
Record iw_side := mkSide { sd_ind : iexp; sd_lin : wexp; sd_clamp_one : bool }.     (* clamp weight 1.0 (true) or 0.0 *)
Record iw_branch := mkBranch { br_in1 : cmp3; br_in2 : cmp3; br_search : search; br_w : wexp; br_low : cmp3; br_side_low : iw_side; br_side_high : iw_side }.
Record iw_fun := mkIw { iw_order : cmp3; iw_inc : iw_branch; iw_dec : iw_branch }.

Section Run.
Context {T : Type} (Op : Ops T).
Definition kval (x : list T) (jj : nat) (k : kidx) : nat :=
  match k with KLit n => Z.to_nat n | KJ => jj | KJ1 => S jj | KEnd => (length x - 1)%nat | KEndM1 => (length x - 2)%nat end.
Fixpoint weval (x : list T) (q : T) (jj : nat) (e : wexp) : T :=
  match e with
  | WQ => q | WX k => xs Op x (kval x jj k)
  | WSub a b => osub Op (weval x q jj a) (weval x q jj b)
  | WDiv a b => odiv Op (weval x q jj a) (weval x q jj b)
  end.
Definition ceval (x : list T) (q : T) (c : cmp3) : bool :=
  let a := weval x q 0%nat (c_l c) in let b := weval x q 0%nat (c_r c) in
  match c_rel c with RLt => oltb Op a b | RGt => oltb Op b a | RLe => oleb Op a b | RGe => oleb Op b a end.
Definition ieval (x : list T) (e : iexp) : nat := match e with ILit n => Z.to_nat n | ISizeM2 => (length x - 2)%nat end.
Definition side_eval (s : scheme) (p : policy) (x : list T) (q : T) (sd : iw_side) : nat * T * bool :=
  let fin (r : nat * T * bool) := match s, r with Nearest, (j, wt, v) => (j, round01 Op wt, v) | Linear, _ => r end in
  let j := ieval x (sd_ind sd) in
  match p with
  | PLinear => fin (j, weval x q j (sd_lin sd), true)
  | PClamp => fin (j, if sd_clamp_one sd then o1 Op else o0 Op, true)
  | PConstant => (j, o0 Op, false)
  end.
Definition branch_eval (s : scheme) (p : policy) (x : list T) (q : T) (b : iw_branch) : nat * T * bool :=
  let fin (r : nat * T * bool) := match s, r with Nearest, (j, wt, v) => (j, round01 Op wt, v) | Linear, _ => r end in
  if ceval x q (br_in1 b) && ceval x q (br_in2 b) then
    let jj := match br_search b with SearchUp => search_up Op (length x) x q 0%nat | SearchDown => search_down Op (length x) x q (length x - 2)%nat end in
    fin (jj, weval x q jj (br_w b), true)
  else if ceval x q (br_low b) then side_eval s p x q (br_side_low b)
  else side_eval s p x q (br_side_high b).
Definition iw_eval (f : iw_fun) (s : scheme) (p : policy) (x : list T) (q : T) : nat * T * bool :=
  if ceval x q (iw_order f) then branch_eval s p x q (iw_inc f) else branch_eval s p x q (iw_dec f).
End Run.
