(* Data types of the expression-template protocol (Expression.h, UnaryOperation.h, BinaryOperation.h):
   what the translator tools/gen_ops.py emits (Gen_Ops.v) is a table of these.  A "rule" is one call
     child.template calc_gradient_<A, S>(stack, loc, scratch [, multiplier-expression])
   of a policy class, with A and S kept as the integer expressions written in the source. *)
From Coq Require Import ZArith List.
Import ListNotations.
Local Open Scope Z_scope.

Inductive side := SL | SR.
(* MyScratchNum + s_nL * L::n_scratch + s_sr * store_result + s_k *)
Record sidx := mkS { s_nL : Z; s_sr : Z; s_k : Z }.
(* MyArrayNum + a_nL * L::n_arrays *)
Record aidx := mkA { a_nL : Z }.

(* the functions that occur in operations and derivative expressions *)
Inductive fname :=
| F_log | F_log10 | F_sin | F_cos | F_tan | F_asin | F_acos | F_atan | F_sinh | F_cosh | F_abs | F_fabs
| F_sqrt | F_tanh | F_exp | F_fastexp | F_ceil | F_floor | F_log2 | F_expm1 | F_exp2 | F_log1p | F_asinh | F_acosh
| F_atanh | F_erf | F_erfc | F_cbrt | F_round | F_trunc | F_rint | F_nearbyint | F_uplus | F_uminus
| F_pow | F_atan2 | F_fast_sqr.

Inductive mexp :=
| MW                                    (* the incoming multiplier *)
| MLit (num den : Z)                    (* decimal literal, exact *)
| MScr (k : Z)                          (* scratch[MyScratchNum + k] *)
| MVal (s : side) (a : aidx) (i : sidx) (* side.value_stored_<a, i>(loc, scratch) *)
| MArg | MRes                           (* val, result inside a unary derivative expression *)
| MDer (a b : mexp)                     (* derivative(a, b) of the unary policy *)
| MNeg (m : mexp) | MAdd (a b : mexp) | MSub (a b : mexp) | MMul (a b : mexp) | MDiv (a b : mexp)
| MFn1 (f : fname) (a : mexp) | MFn2 (f : fname) (a b : mexp)
| MGt (a b : mexp) | MLt (a b : mexp).  (* comparison used as the number 1 or 0 *)

Inductive cmp := CGt | CLe | CLt | CGe.
Record guard := mkGuard { g_neg : bool; g_cmp : cmp; g_l : mexp; g_r : mexp }.
Record rule := mkRule { r_guard : option guard; r_side : side; r_a : aidx; r_s : sidx; r_mult : option mexp }.

(* how a binary node computes its value *)
Inductive bkind := KAdd | KSub | KMul | KDiv | KPow | KAtan2 | KMax | KMin.
Record policy := mkPolicy {
  p_store_result : Z;
  p_left : rule; p_right : rule;            (* calc_left / calc_right without multiplier *)
  p_left_m : rule; p_right_m : rule         (* ... with multiplier *)
}.
(* the node classes: where children are evaluated and stored *)
Record node_rules := mkNode {
  n_store_left : aidx * sidx;     (* left.value_at_location_store_<..> in terms of n_local_scratch = store_result *)
  n_store_right : aidx * sidx;
  n_value_right : aidx;           (* right.value_at_location_<..> *)
  n_un_store : aidx * sidx;       (* unary: arg.value_at_location_store_<..> *)
  n_un_rule : rule; n_un_rule_m : rule
}.
(* the wrapper classes for an expression combined with a passive scalar (BinaryOpScalarLeft / BinaryOpScalarRight) *)
Record scalar_node := mkSNode {
  sn_store : aidx * sidx;         (* child.value_at_location_store_<..> *)
  sn_value : aidx;                (* child.value_at_location_<..> *)
  sn_fwd : aidx * sidx;           (* Op::calc_right / calc_left <..> without multiplier *)
  sn_fwd_m : aidx * sidx;         (* ... with multiplier *)
  sn_store2 : bool                (* a variant for store_result = 2 (operation_store, second scratch slot) exists *)
}.
