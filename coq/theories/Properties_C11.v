(* C11 — misuse is reported by the documented exception, never by memory corruption.
   This file holds only the property theorems; each is closed by [exact] of a lemma of ProtocolProofs.v and
   followed by Print Assumptions.
   Model: Protocol.v (the recording life cycle with the allocated length of the gradient list, the initialised length
   used by the range checks, and the extension before a sweep; tie H: ./check C11 runs misuse-heavy protocol
   histories on an AddressSanitizer build of the real Stack against the extracted model, exception kinds included).
   _partial: the array-side misuse classes (size_mismatch, inner_dimension_mismatch, empty_array, invalid_dimension,
   invalid_operation, index_out_of_bounds on over-filling) and stack_already_active are not in this model; for them
   the check commits each misuse under AddressSanitizer/UBSan, verifies the exception type and the follow-up work. *)
From Coq Require Import List Arith Ring_theory ZArith.
From Adept Require Import Scalar Tape TapeAdjoint Protocol ProtocolProofs StackDefs StackProofs ProtocolStack.
From AdeptGen Require Import Gen_Stack.
Import ListNotations.

Section AnyRing.
Context {T : Type} (O : Ops T).
Hypothesis Rth : ring_theory (o0 O) (o1 O) (oadd O) (omul O) (osub O) (oneg O) (@eq T).
Hypothesis eqb_true : forall a b, oeqb O a b = true -> a = b.

(* in EVERY history - protocol-respecting or not - no store or sweep reaches beyond the allocated gradient list *)
Theorem C11_no_out_of_bounds_partial : forall ops, oob (prun O ops (pinit O)) = 0.
Proof. exact (no_out_of_bounds O). Qed.

(* the documented kinds: passes and reads before any seed -> gradients_not_initialized; seeding or reading an index at
   or beyond the initialised length -> gradient_out_of_range; append on a different variable -> wrong_gradient *)
Theorem C11_kinds_partial : forall st : pstate (T:=T),
  (init st = false -> pstep O st OForward = add_err st ENotInit /\ pstep O st OReverse = add_err st ENotInit /\ forall i, obs_gradient_error st i = Some ENotInit) /\
  (init st = true -> forall i x, ninit st <= i -> pstep O st (OSeed i x) = add_err st ERange /\ obs_gradient_error st i = Some ERange) /\
  (recording st = true -> forall l ops, forallb (fun mi => Nat.ltb (snd mi) (ngrad st)) ops = true -> append_last (tp st) l (drop_zeros O ops) = None ->
     pstep O st (OAppendDep l ops) = add_err st EWrongGradient).
Proof. exact (misuse_kinds O). Qed.

(* after the exception: tape, gradients, lists and flags are untouched, the invariants hold, so the replay theorem of
   C10 applies to the state as it stands *)
Theorem C11_recoverable_partial : forall (st : pstate (T:=T)) k,
  tp (add_err st k) = tp st /\ buf (add_err st k) = buf st /\ init (add_err st k) = init st /\ ngrad (add_err st k) = ngrad st /\
  ninit (add_err st k) = ninit st /\ indep (add_err st k) = indep st /\ dep (add_err st k) = dep st /\ recording (add_err st k) = recording st /\
  (PInv st -> PInv (add_err st k)).
Proof. exact (misuse_recoverable). Qed.
Theorem C11_invariants_survive_partial : forall ops, PInv (prun O ops (pinit O)) /\ NInv (prun O ops (pinit O)).
Proof. intros ops. split; [apply prun_inv; constructor|apply prun_ninv; intros H; discriminate]. Qed.

(* tie G: the gradient-list bookkeeping of adept::Stack TRANSLATED on every run from Stack.cpp / Stack.h (initialize_gradients,
   extend_gradients, set_gradients, get_gradients, compute_adjoint / compute_tangent_linear, clear_gradients, new_recording).
   In every state the model can reach, executing the translated code on the model's counters gives the model's next
   counters and the model's exception kind, and never touches the gradient buffer beyond its TRUE length (b_oob), for
   set_gradient / get_gradient of any object index, both sweeps, clear_gradients and new_recording *)
Theorem C11_generated_stack_bookkeeping : forall ops ig i x,
  let st := prun O ops (pinit O) in
  (let r := do_set (Z.of_nat i) (Z.of_nat i + 1) (proj ig st) in
   same_counters (pstep O st (OSeed i x)) r /\ b_oob r = false /\
   match b_err r with None => errs (pstep O st (OSeed i x)) = errs st | Some e => errs (pstep O st (OSeed i x)) = kind_of e :: errs st end) /\
  (let r := do_get (Z.of_nat i) (Z.of_nat i + 1) (proj ig st) in b_oob r = false /\ option_map kind_of (b_err r) = obs_gradient_error st i) /\
  (let r := do_adjoint (proj ig st) in
   b_oob r = false /\ b_oob (do_tangent (proj ig st)) = false /\
   match b_err r with
   | None => init st = true /\ same_counters (pstep O st OReverse) r /\ same_counters (pstep O st OForward) r /\
             errs (pstep O st OReverse) = errs st /\ errs (pstep O st OForward) = errs st
   | Some e => init st = false /\ errs (pstep O st OReverse) = kind_of e :: errs st /\ errs (pstep O st OForward) = kind_of e :: errs st
   end) /\
  same_counters (pstep O st OClearGradients) (do_clear_gradients (proj ig st)).
Proof.
  intros ops ig i x st. pose proof (reachable_cap O ops) as Hc. fold st in Hc.
  split; [exact (seed_matches O ig st i x Hc)|]. split; [exact (read_matches ig st i Hc)|].
  split; [exact (sweeps_match O ig st Hc)|exact (clear_gradients_matches O ig st Hc)].
Qed.
End AnyRing.
Print Assumptions C11_generated_stack_bookkeeping.
Print Assumptions C11_no_out_of_bounds_partial.
Print Assumptions C11_kinds_partial.
Print Assumptions C11_recoverable_partial.
Print Assumptions C11_invariants_survive_partial.

(* non-vacuity: seed, create two objects, seed the second of them: gradient_out_of_range, and the sweep still works *)
From Coq Require Import ZArith.
Example C11_example :
  let h : list (pop (T:=Z)) := [ORegister 2; ONewRecording 2; OAddDep 1%nat [(3%Z, 0%nat)]; OSeed 1%nat 1%Z; ORegister 4; ORecord (mkStmt 3%nat []); OSeed 3%nat 1%Z; OReverse] in
  let st := prun ZOps h (pinit ZOps) in
  errs st = [ERange] /\ obs_gradient st 0 = Some 3%Z /\ oob st = 0%nat /\ obs_gradient_error st 3 = Some ERange.
Proof. vm_compute. repeat split. Qed.
