(* C15: a band matrix times a vector as Adept marshals it for ?gbmv (matmul.h matmul_band, cppblas.cpp cppblas_gbmv).
   Reference: the Fortran routine ?gbmv on LAPACK band storage (column-major): element (i,j) of an M x N matrix with KL
   sub- and KU super-diagonals, max(0,j-KU) <= i <= min(M-1,j+KL), is stored at a0 + (KU + i - j) + j*lda; alpha = 1,
   beta = 0.  What is subtracted from the pointer to the top-left element, the leading dimension, the (KL,KU) of the
   call and what the wrapper forwards for each storage order are GENERATED from the sources (Gen_Band.v); the layout of
   the band engines is the generated index function of Gen_Engines.v. *)
From Coq Require Import ZArith List Bool.
From Adept Require Import Scalar Matmul.
From AdeptGen Require Import Gen_Band Gen_Engines.
Import ListNotations.
Local Open Scope Z_scope.

Section Band.
Context {T : Type} (O : Ops T).
Notation zsum := (zsum O).
Definition inband (KL KU i j : Z) : bool := (j - KU <=? i) && (i <=? j + KL).
(* ?gbmv: NoTrans y(r) = sum_j A(r,j) x(j) ; Trans y(r) = sum_i A(i,r) x(i), over the stored band only *)
Definition f_gbmv_cell (trans : bool) (M N KL KU : Z) (mem : Z -> T) (a0 lda x0 incx : Z) (r : Z) : T :=
  if trans then zsum M (fun i => if inband KL KU i r then omul O (mem (a0 + (KU + i - r) + r * lda)) (mem (x0 + i * incx)) else o0 O)
  else zsum N (fun j => if inband KL KU r j then omul O (mem (a0 + (KU + r - j) + j * lda)) (mem (x0 + j * incx)) else o0 O).
Definition cppblas_gbmv_cell (row_major : bool) (trans : bool) (M N KL KU : Z) (mem : Z -> T) (a0 lda x0 incx : Z) (r : Z) : T :=
  let '(t, m, n, kl, ku) := if row_major then gbmv_row_major_args trans M N KL KU else gbmv_col_major_args trans M N KL KU in
  f_gbmv_cell t m n kl ku mem a0 lda x0 incx r.
(* matmul_band: left_ptr addresses element (0,0) of the band matrix, left_offset is the engine's offset *)
Definition adept_band_mv (row_major : bool) (L U dim : Z) (mem : Z -> T) (left_ptr left_offset x0 incx : Z) (i : Z) : T :=
  cppblas_gbmv_cell row_major false dim dim (fst (band_call_kl_ku L U)) (snd (band_call_kl_ku L U)) mem
                    (left_ptr - band_start_shift row_major L U) (band_lda left_offset) x0 incx i.
(* the defining sum over the elements the band engine stores, read through the engine's own index function *)
Definition band_mv_spec (row_major : bool) (L U dim : Z) (mem : Z -> T) (left_ptr left_offset x0 incx : Z) (i : Z) : T :=
  let e := if row_major then BandR else BandC in
  zsum dim (fun j => if stored e L U i j then omul O (mem (left_ptr + index e L U i j left_offset)) (mem (x0 + j * incx)) else o0 O).

(* ---- band matrix x dense matrix (matmul_band for a rank-2 right operand): one ?gbmv per column c of the right operand, with
   the generated start pointers and increments; element (i, c) of the result is stored at band_mm_y_start + i * band_mm_incy *)
Definition adept_band_mm (row_major : bool) (L U dim : Z) (mem : Z -> T) (left_ptr left_offset x0 roff0 roff1 : Z) (i c : Z) : T :=
  adept_band_mv row_major L U dim mem left_ptr left_offset (band_mm_x_start x0 c roff0 roff1) (band_mm_incx roff0 roff1) i.
Definition band_mm_result_addr (y0 aoff0 aoff1 i c : Z) : Z := band_mm_y_start y0 c aoff0 aoff1 + i * band_mm_incy aoff0 aoff1.
(* the defining sum: sum over the stored band of row i of  band(i,j) * right(j,c)  with right(j,c) at x0 + j*roff0 + c*roff1 *)
Definition band_mm_spec (row_major : bool) (L U dim : Z) (mem : Z -> T) (left_ptr left_offset x0 roff0 roff1 : Z) (i c : Z) : T :=
  let e := if row_major then BandR else BandC in
  zsum dim (fun j => if stored e L U i j then omul O (mem (left_ptr + index e L U i j left_offset)) (mem (x0 + j * roff0 + c * roff1)) else o0 O).

(* ---- symmetric matrix x vector: ?symv reads only the triangle [upper] of the column-major n x n matrix at a0 (leading
   dimension lda) and mirrors it; y(i) = sum_j A(i,j) x(j) *)
Definition symv_read (upper : bool) (mem : Z -> T) (a0 lda i j : Z) : T :=
  if upper then (if i <=? j then mem (a0 + i + j * lda) else mem (a0 + j + i * lda))
  else (if j <=? i then mem (a0 + i + j * lda) else mem (a0 + j + i * lda)).
Definition f_symv_cell (upper : bool) (n : Z) (mem : Z -> T) (a0 lda x0 incx : Z) (i : Z) : T :=
  zsum n (fun j => omul O (symv_read upper mem a0 lda i j) (mem (x0 + j * incx))).
Definition adept_symm_mv (row_lower_col_upper : bool) (n : Z) (mem : Z -> T) (left_ptr left_offset x0 incx : Z) (i : Z) : T :=
  f_symv_cell (symv_wrapper_uplo symv_call_row_major (symv_uplo_of_orient row_lower_col_upper)) n mem left_ptr (symv_lda left_offset) x0 incx i.
Definition symm_mv_spec (row_lower_col_upper : bool) (n : Z) (mem : Z -> T) (left_ptr left_offset x0 incx : Z) (i : Z) : T :=
  let e := if row_lower_col_upper then SymLo else SymUp in
  zsum n (fun j => omul O (mem (left_ptr + index e 0 0 i j left_offset)) (mem (x0 + j * incx))).

(* ---- symmetric matrix x matrix: ?symm, column-major.  Side Left: C (M x N) = A (M x M, symmetric) B (M x N);
   side Right: C (M x N) = B (M x N) A (N x N).  Cell (r,c) of C, which is stored at c0 + r + c*ldc *)
Definition f_symm_cell (left upper : bool) (M N : Z) (mem : Z -> T) (a0 lda b0 ldb : Z) (r c : Z) : T :=
  if left then zsum M (fun k => omul O (symv_read upper mem a0 lda r k) (mem (b0 + k + c * ldb)))
  else zsum N (fun k => omul O (mem (b0 + r + k * ldb)) (symv_read upper mem a0 lda k c)).
Definition f_symm_addr (c0 ldc r c : Z) : Z := c0 + r + c * ldc.
(* the logical cell (i,j) of the answer: for a row-major call the Fortran routine works on the transposed problem *)
Definition cppblas_symm_cell (row_major left upper : bool) (M N : Z) (mem : Z -> T) (a0 lda b0 ldb : Z) (i j : Z) : T :=
  if row_major then let '(l, u, m, n) := symm_row_major_args left upper M N in f_symm_cell l u m n mem a0 lda b0 ldb j i
  else let '(l, u, m, n) := symm_col_major_args left upper M N in f_symm_cell l u m n mem a0 lda b0 ldb i j.
Definition cppblas_symm_addr (row_major : bool) (c0 ldc i j : Z) : Z := if row_major then f_symm_addr c0 ldc j i else f_symm_addr c0 ldc i j.
(* matmul_symmetric (matrix right operand): the call is row-major iff the right operand is row-contiguous *)
Definition adept_symm_mm (row_lower_col_upper right_row_contiguous : bool) (M N : Z) (mem : Z -> T) (left_ptr left_offset b0 right_stride : Z) (i j : Z) : T :=
  cppblas_symm_cell right_row_contiguous symm_call_side_left (symm_uplo_of row_lower_col_upper right_row_contiguous) M N mem left_ptr left_offset b0 right_stride i j.
Definition right_elem (right_row_contiguous : bool) (mem : Z -> T) (b0 right_stride k j : Z) : T :=
  if right_row_contiguous then mem (b0 + k * right_stride + j) else mem (b0 + k + j * right_stride).
Definition symm_mm_spec (row_lower_col_upper right_row_contiguous : bool) (M : Z) (mem : Z -> T) (left_ptr left_offset b0 right_stride : Z) (i j : Z) : T :=
  let e := if row_lower_col_upper then SymLo else SymUp in
  zsum M (fun k => omul O (mem (left_ptr + index e 0 0 i k left_offset)) (right_elem right_row_contiguous mem b0 right_stride k j)).

(* ---- the derivative statement matmul_band records for row i when the right-hand vector is active *)
Definition band_statement (row_major : bool) (L U dim : Z) (mem : Z -> T) (left_ptr off right_index incx : Z) (i : Z) : list (T * Z) :=
  let js := band_j_start i L in let je := band_j_end i U dim in
  push_dep mem (band_grad_start right_index js incx) (left_ptr + band_index_start row_major i js off) (je - js) (band_grad_stride incx) (band_index_stride row_major off).
End Band.
