(* Dense matrix products as Adept marshals them for BLAS (matmul.h:58-214, cppblas.cpp:66-108).
   Reference: the Fortran routines ?gemm / ?gemv on column-major storage with leading dimension and increments,
   alpha = 1, beta = 0.  cppblas_* turn a row-major call into the column-major call on the transposed problem.
   matmul_ chooses order, transposition flags and leading dimensions from the operands' strides, and records the
   derivative statements of an active product with push_derivative_dependence. *)
From Coq Require Import ZArith List Bool.
From Adept Require Import Scalar.
Import ListNotations.
Local Open Scope Z_scope.

Section Matmul.
Context {T : Type} (O : Ops T).
Definition memT := Z -> T.
Definition zsum (n : Z) (f : Z -> T) : T := fold_left (fun a q => oadd O a (f (Z.of_nat q))) (seq 0 (Z.to_nat n)) (o0 O).

(* ---- reference BLAS (column-major).  op(A)(i,k) for A stored at a0 with leading dimension lda *)
Definition f_op (trans : bool) (mem : memT) (a0 lda i k : Z) : T := if trans then mem (a0 + k + i * lda) else mem (a0 + i + k * lda).
(* ?gemm: C(i,j), stored at c0 + i + j*ldc, := sum_q op(A)(i,q) * op(B)(q,j)  for i < M, j < N, q < K *)
Definition f_gemm_cell (ta tb : bool) (K : Z) (mem : memT) (a0 lda b0 ldb : Z) (i j : Z) : T :=
  zsum K (fun q => omul O (f_op ta mem a0 lda i q) (f_op tb mem b0 ldb q j)).
Definition f_gemm_addr (c0 ldc i j : Z) : Z := c0 + i + j * ldc.
(* ?gemv, A is M x N: NoTrans y(i) = sum_j A(i,j) x(j) ; Trans y(j) = sum_i A(i,j) x(i) ; x(q) at x0 + q*incx (incx > 0) *)
Definition f_gemv_cell (ta : bool) (M N : Z) (mem : memT) (a0 lda x0 incx : Z) (r : Z) : T :=
  if ta then zsum M (fun q => omul O (mem (a0 + q + r * lda)) (mem (x0 + q * incx)))
  else zsum N (fun q => omul O (mem (a0 + r + q * lda)) (mem (x0 + q * incx))).

(* ---- cppblas.cpp: row-major calls are mapped to the transposed column-major problem *)
Inductive order := RowMajor | ColMajor.
(* value and address of result cell (i,j) of  C = op(A) op(B)  with C given in [ord] *)
Definition cppblas_gemm_cell (ord : order) (ta tb : bool) (K : Z) (mem : memT) (a0 lda b0 ldb : Z) (i j : Z) : T :=
  match ord with
  | ColMajor => f_gemm_cell ta tb K mem a0 lda b0 ldb i j
  | RowMajor => f_gemm_cell tb ta K mem b0 ldb a0 lda j i       (* FUNC(TransB, TransA, N, M, K, B, ldb, A, lda, C, ldc) *)
  end.
Definition cppblas_gemm_addr (ord : order) (c0 ldc i j : Z) : Z :=
  match ord with ColMajor => f_gemm_addr c0 ldc i j | RowMajor => f_gemm_addr c0 ldc j i end.
Definition cppblas_gemv_cell (ord : order) (ta : bool) (M N : Z) (mem : memT) (a0 lda x0 incx : Z) (r : Z) : T :=
  match ord with
  | ColMajor => f_gemv_cell ta M N mem a0 lda x0 incx r
  | RowMajor => f_gemv_cell (negb ta) N M mem a0 lda x0 incx r   (* FUNC(TransNew, N, M, A, lda, X, incX, Y, incY) *)
  end.

(* ---- matmul.h: a dense operand is (base address, stride of dimension 0, stride of dimension 1) *)
Record mview := mkMV { mb : Z; ms0 : Z; ms1 : Z; md0 : Z; md1 : Z }.
Definition melem (mem : memT) (v : mview) (i k : Z) : T := mem (mb v + i * ms0 v + k * ms1 v).
Definition row_contig (v : mview) : bool := (ms1 v =? 1) && (md1 v <=? ms0 v).
Definition col_contig (v : mview) : bool := (ms0 v =? 1) && (md0 v <=? ms1 v).
(* the answer is a freshly allocated row-major matrix with row stride cs >= its number of columns *)
Definition adept_gemm_cell (mem : memT) (l r : mview) (i j : Z) : option T :=
  if (row_contig l || col_contig l) && (row_contig r || col_contig r) then
    let ord := RowMajor in
    let lt := negb (row_contig l) in let ls := if row_contig l then ms0 l else ms1 l in
    let rt := negb (row_contig r) in let rs := if row_contig r then ms0 r else ms1 r in
    Some (cppblas_gemm_cell ord lt rt (md1 l) mem (mb l) ls (mb r) rs i j)
  else None.   (* strided both ways: the operand is first copied to a packed array (C04) and the call repeated *)
Definition adept_gemm_addr (c0 cs i j : Z) : Z := cppblas_gemm_addr RowMajor c0 cs i j.
Record vview := mkVV { vb : Z; vinc : Z; vlen : Z }.
Definition velem (mem : memT) (v : vview) (q : Z) : T := mem (vb v + q * vinc v).
Definition adept_gemv_cell (mem : memT) (l : mview) (x : vview) (i : Z) : option T :=
  if (row_contig l || col_contig l) && (0 <? vinc x) then
    let ord := if row_contig l then RowMajor else ColMajor in
    let ls := if row_contig l then ms0 l else ms1 l in
    Some (cppblas_gemv_cell ord false (md0 l) (md1 l) mem (mb l) ls (vb x) (vinc x) i)
  else None.   (* otherwise the matrix (strided both ways) or the vector (negative stride) is copied first *)

(* ---- derivative statements: push_derivative_dependence(rhs_index, multiplier pointer, n, index stride, multiplier stride) *)
Definition push_dep (mem : memT) (rhs_index mult0 n index_stride mult_stride : Z) : list (T * Z) :=
  map (fun q => (mem (mult0 + Z.of_nat q * mult_stride), rhs_index + Z.of_nat q * index_stride)) (seq 0 (Z.to_nat n)).
(* statement for C(i,j) of matmul(left, right): gradient indices follow the same strides as the data *)
Definition gemm_statement (mem : memT) (l r : mview) (lact ract : bool) (lidx ridx : Z) (i j : Z) : list (T * Z) :=
  (if lact then push_dep mem (lidx + i * ms0 l) (mb r + j * ms1 r) (md0 r) (ms1 l) (ms0 r) else []) ++
  (if ract then push_dep mem (ridx + j * ms1 r) (mb l + i * ms0 l) (md0 r) (ms0 r) (ms1 l) else []).
Definition ops_val (ops : list (T * Z)) (g : Z -> T) : T := fold_left (fun a mi => oadd O a (omul O (fst mi) (g (snd mi)))) ops (o0 O).
End Matmul.
