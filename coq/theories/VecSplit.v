(* SIMD evaluation of array statements (Array.h:2896-3024 assign_expression_ vectorized versions,
   reduce.h:501-571): eligibility, the alignment negotiation (alignment_offset_<n>, combination rule of
   BinaryOperation.h:127-142) and the prologue / packet body / epilogue split.  A packet operation is by
   definition the lane-wise scalar operation (quick_e.h intrinsics): that is the modelled part. *)
From Coq Require Import ZArith List Bool.
Import ListNotations.
Local Open Scope Z_scope.

(* Array::alignment_offset_<w>(): elements to skip until the data pointer is a multiple of w elements;
   [a] = element address of the first element *)
Definition align_off (w a : Z) : Z := (w - a mod w) mod w.
(* combination for binary nodes: w means "don't care" (scalars), -1 means clash *)
Definition combine_off (w l r : Z) : Z :=
  if l =? r then l else if l =? w then r else if r =? w then l else -1.
Fixpoint combine_all (w : Z) (offs : list Z) : Z :=
  match offs with [] => w | o :: t => combine_off w o (combine_all w t) end.

(* the split of one row of n elements: (istartvec, iendvec).  [rhs_off] = negotiated offset of the
   right-hand side, [lhs_off] = alignment offset of the target *)
Definition split (w n rhs_off lhs_off : Z) : Z * Z :=
  if (rhs_off <? 0) || negb (rhs_off =? lhs_off) then (0, 0)
  else let e := n - rhs_off in (rhs_off, e - e mod w + rhs_off).
(* reductions only have a right-hand side *)
Definition split_reduce (w n rhs_off : Z) : Z * Z :=
  if rhs_off <? 0 then (0, 0) else let e := n - rhs_off in (rhs_off, e - e mod w + rhs_off).

(* eligibility of the packet path for a row of n contiguous elements *)
Definition eligible (w n : Z) (all_contiguous : bool) : bool := (2 * w <=? n) && all_contiguous.

(* counts observed by the guarded hook: scalar prologue elements, packets, scalar epilogue elements *)
Definition counts (w n : Z) (sp : Z * Z) : Z * Z * Z :=
  let '(s, e) := sp in (s, (e - s) / w, n - e).
Definition assign_counts (w n : Z) (all_contiguous : bool) (rhs_off lhs_off : Z) : Z * Z * Z :=
  if eligible w n all_contiguous then counts w n (split w n rhs_off lhs_off) else (0, 0, 0).

(* right-hand-side expression as far as the negotiation is concerned: array leaves (element address of the
   first element, contiguous or not), scalars, unary and binary nodes (Expression.h:131-146: a final answer
   of "don't care" becomes 0) *)
Inductive vexp := VArr (a : Z) (contig : bool) | VScal | VUn (e : vexp) | VBin (l r : vexp).
Fixpoint voff (w : Z) (e : vexp) : Z :=
  match e with
  | VArr a _ => align_off w a
  | VScal => w
  | VUn a => voff w a
  | VBin l r => combine_off w (voff w l) (voff w r)
  end.
Fixpoint vcontig (e : vexp) : bool :=
  match e with VArr _ c => c | VScal => true | VUn a => vcontig a | VBin l r => vcontig l && vcontig r end.
Fixpoint leaves (e : vexp) : list Z :=
  match e with VArr a _ => [a] | VScal => [] | VUn a => leaves a | VBin l r => leaves l ++ leaves r end.
Definition expr_off (w : Z) (e : vexp) : Z := let v := voff w e in if v <? w then v else 0.

(* counters of a whole statement  target = e  with [rows] rows of n elements; [lhs_ok] = target contiguous
   (and, for rank > 1, its row stride a multiple of w) *)
Definition stmt_counts (w rows n lhs_addr : Z) (lhs_ok : bool) (e : vexp) : Z * Z * Z :=
  if eligible w n (lhs_ok && vcontig e)
  then let '(h, p, t) := counts w n (split w n (expr_off w e) (align_off w lhs_addr)) in (rows * h, rows * p, rows * t)
  else (0, 0, 0).
Definition reduce_counts (w rows n : Z) (e : vexp) : Z * Z * Z :=
  if eligible w n (vcontig e)
  then let '(h, p, t) := counts w n (split_reduce w n (expr_off w e)) in (rows * h, rows * p, rows * t)
  else (0, 0, 0).

(* value level: the three loops applied to an element function (a packet operation is the lane-wise scalar
   operation); indices are natural numbers *)
Definition vec_row {A} (f : nat -> A) (s w p t : nat) : list A :=
  map f (seq 0 s) ++ flat_map (fun k => map f (seq (s + w * k)%nat w)) (seq 0 p) ++ map f (seq (s + w * p)%nat t).
(* reduction with a scalar accumulator (prologue and epilogue) and w lane accumulators (packet body),
   combined at the end (accumulate_packet2): over an abstract commutative monoid *)
Section Reduce.
  Context {A : Type} (op : A -> A -> A) (e0 : A).
  Definition scalar_reduce (f : nat -> A) (n : nat) : A := fold_left (fun acc i => op acc (f i)) (seq 0 n) e0.
  Definition lane_total (f : nat -> A) (s w p lane : nat) : A :=
    fold_left (fun acc k => op acc (f (s + w * k + lane)%nat)) (seq 0 p) e0.
  Definition vec_reduce (f : nat -> A) (s w p t : nat) : A :=
    let scal := fold_left (fun acc i => op acc (f i)) (seq 0 s ++ seq (s + w * p)%nat t) e0 in
    fold_left (fun acc lane => op acc (lane_total f s w p lane)) (seq 0 w) scal.
End Reduce.

(* rows of an operand of rank > 1 all start at the alignment of the first one iff every stride but the last is a
   multiple of w (Array::columns_aligned_, FixedArray::all_arrays_contiguous_); the last stride must be 1 *)
Definition rows_ok (w : Z) (strides : list Z) : bool :=
  (last strides 0 =? 1) && forallb (fun s => s mod w =? 0) (removelast strides).
Fixpoint dotZ (idx strides : list Z) : Z :=
  match idx, strides with i :: idx', s :: strides' => i * s + dotZ idx' strides' | _, _ => 0 end.
