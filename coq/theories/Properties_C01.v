(* C01 — reverse-mode gradients equal the true derivatives of the recorded program.
   This file holds only the property theorems; each is closed by [exact] of a lemma of ExprProofs.v,
   ProgramProofs.v or ExprReal.v and followed by Print Assumptions.
   Models: generated/Gen_Ops.v (tie G: the rule tables - template arguments, multiplier expressions, guards,
   derivative expressions - are translated from BinaryOperation.h / UnaryOperation.h on every run), Expr.v
   (hand-written interpreter of those tables: value_at_location_store_, value_stored_, calc_gradient_),
   Program.v (hand model of which statement each Active<T> operation records; tie H: ./check C01 runs generated
   adouble programs against the extracted model), Tape.v (sweeps of Stack.cpp). *)
From Coq Require Import ZArith List Reals Ring_theory.
From Coquelicot Require Import Coquelicot.
From Adept Require Import Scalar ExprDefs Expr ExprProofs ExprScalar ExprScalarProofs Tape TapeAdjoint Program ProgramProofs ExprReal.
From Adept Require Import ActiveDefs.
From AdeptGen Require Import Gen_Ops Gen_Active.
Import ListNotations.

Section AnyRing.
Context {T : Type} (F : FOps T).
Let O := fbase F.
Hypothesis Rth : ring_theory (o0 O) (o1 O) (oadd O) (omul O) (osub O) (oneg O) (@eq T).
Hypothesis Hdiv : forall x y, odiv O x y = omul O x (odiv O (o1 O) y).
Hypothesis Hlit1 : flit F 1 1 = o1 O.
Hypothesis eqb_true : forall a b, oeqb O a b = true -> a = b.

(* one expression (any tree of active / passive scalars, array elements, unary functions, binary operations in
   every operand-kind combination): the protocol returns the value of the expression and pushes operations whose
   weighted sum is its tangent, for every direction u *)
Theorem C01_expression : forall (e : expr (T:=T)) u,
  fst (value_and_gradient F e) = sem F e /\ dot_ops F (snd (value_and_gradient F e)) u = tangent F u e.
Proof. exact (value_and_gradient_correct F Rth Hdiv Hlit1). Qed.

(* every program: values are those of the plain program, the forward sweep over the recorded tape gives the
   tangents of the dual-number evaluation *)
Theorem C01_tape_forward : forall p vals0 u0,
  fst (exec F p vals0) = fst (dexec F p vals0 u0) /\ fwd_sweep O (snd (exec F p vals0)) u0 = snd (dexec F p vals0 u0).
Proof. exact (exec_forward F Rth Hdiv Hlit1). Qed.

(* reverse mode: seed output y with 1; the adjoint at input x equals the tangent of y when x is seeded with 1 *)
Theorem C01_reverse_equals_first_order_evaluation : forall n p vals0 y x,
  forallb (stmt_below n) p = true -> (y < n)%nat -> (x < n)%nat ->
  rev_sweep O (snd (exec F p vals0)) (unit_vec O y) x = snd (dexec F p vals0 (unit_vec O x)) y.
Proof. exact (reverse_is_tangent F Rth Hdiv Hlit1 eqb_true). Qed.

(* never more operations than check_space_static<n_active> reserves (shared with C09) *)
Theorem C01_pushes_within_n_active : forall arrs (e : expr (T:=T)) A S scr w,
  (Z.of_nat (length (calc_gradient F arrs e A S scr w)) <= n_active e)%Z.
Proof. exact (pushes_le_n_active F). Qed.

(* c op e and e op c with a passive scalar c go through the wrapper classes BinaryOpScalarLeft / BinaryOpScalarRight,
   whose child positions and forwarding template arguments are TRANSLATED from the source (scalar_left_node,
   scalar_right_node, and the lists of policies they are instantiated with): for every policy so instantiated, every
   child expression and every direction they return the value and push the tangent of the binary node with a passive
   leaf; inside any enclosing tree (any A, S, multiplier) they are that node (lemmas left_... and right_... of ExprScalarProofs.v) *)
Theorem C01_scalar_wrappers : forall k c (e : expr (T:=T)) u,
  (In k scalar_left_ops ->
     fst (sn_value_and_gradient F scalar_left_node true k c e) = sem F (XBin k (XPas c) e) /\
     dot_ops F (snd (sn_value_and_gradient F scalar_left_node true k c e)) u = tangent F u (XBin k (XPas c) e)) /\
  (In k scalar_right_ops ->
     fst (sn_value_and_gradient F scalar_right_node false k c e) = sem F (XBin k e (XPas c)) /\
     dot_ops F (snd (sn_value_and_gradient F scalar_right_node false k c e)) u = tangent F u (XBin k e (XPas c))).
Proof.
  intros k c e u. split.
  - exact (scalar_left_correct F scalar_left_node scalar_left_ops generated_left_ok Rth Hdiv Hlit1 k c e u).
  - exact (scalar_right_correct F scalar_right_node scalar_right_ops generated_right_ok Rth Hdiv Hlit1 k c e u).
Qed.
Theorem C01_scalar_wrappers_in_context : forall arrs k c (e : expr (T:=T)) A S scr w,
  (In k scalar_left_ops ->
     sn_value_store F scalar_left_node true arrs k c e A S scr = value_store F arrs (XBin k (XPas c) e) A S scr) /\
  sn_value_stored F scalar_left_node true arrs k c e A S scr = value_stored F arrs (XBin k (XPas c) e) A S scr /\
  sn_calc_gradient F scalar_left_node true arrs k c e A S scr w = calc_gradient F arrs (XBin k (XPas c) e) A S scr w /\
  (In k scalar_right_ops ->
     sn_value_store F scalar_right_node false arrs k c e A S scr = value_store F arrs (XBin k e (XPas c)) A S scr) /\
  sn_value_stored F scalar_right_node false arrs k c e A S scr = value_stored F arrs (XBin k e (XPas c)) A S scr /\
  sn_calc_gradient F scalar_right_node false arrs k c e A S scr w = calc_gradient F arrs (XBin k e (XPas c)) A S scr w.
Proof.
  intros arrs k c e A S scr w.
  split; [exact (left_value_store F scalar_left_node scalar_left_ops generated_left_ok arrs k c e A S scr)|].
  split; [exact (left_value_stored F scalar_left_node scalar_left_ops generated_left_ok arrs k c e A S scr)|].
  split; [exact (left_calc_gradient F scalar_left_node scalar_left_ops generated_left_ok arrs k c e A S scr w)|].
  split; [exact (right_value_store F scalar_right_node scalar_right_ops generated_right_ok arrs k c e A S scr)|].
  split; [exact (right_value_stored F scalar_right_node scalar_right_ops generated_right_ok arrs k c e A S scr)|].
  exact (right_calc_gradient F scalar_right_node scalar_right_ops generated_right_ok arrs k c e A S scr w).
Qed.
End AnyRing.
Print Assumptions C01_expression.
Print Assumptions C01_scalar_wrappers.
Print Assumptions C01_scalar_wrappers_in_context.
Print Assumptions C01_tape_forward.
Print Assumptions C01_reverse_equals_first_order_evaluation.
Print Assumptions C01_pushes_within_n_active.

(* the generated tables use the template arguments of the canonical numbering (a slip in one of them breaks this) *)
Theorem C01_template_arguments : forall k, let p := policy_of k in
  rule_at SL (p_left p) /\ rule_at SL (p_left_m p) /\ rule_at SR (p_right p) /\ rule_at SR (p_right_m p) /\ (0 <= p_store_result p <= 2)%Z.
Proof. exact policies_canonical. Qed.
Print Assumptions C01_template_arguments.

(* the generated tables of the two scalar wrapper classes: child stored where the binary node stores it, policy entered
   with the node's own MyArrayNum / MyScratchNum, and no policy with two scratch slots instantiated through a wrapper
   that fills only one (BinaryOpScalarRight has no operation_store variant) *)
Theorem C01_scalar_wrapper_tables :
  snode_left_ok scalar_left_node scalar_left_ops /\ snode_right_ok scalar_right_node scalar_right_ops.
Proof. exact (conj generated_left_ok generated_right_ok). Qed.
Print Assumptions C01_scalar_wrapper_tables.

(* every constructor, assignment and compound assignment of Active<T> and ActiveReference<T>, TRANSLATED from Active.h /
   ActiveReference.h (the recorded effect of each body recognised token by token): a passive right-hand side records the
   left-hand side only (PSetP), an active scalar or expression goes through scalar_value_and_gradient with a reservation
   that covers its pushes and then push_lhs (PSetE), x op= e is x = x op e with the same operator, x += c and x -= c change
   the value only (PAddP), x *= c and x /= c are x = x op c; all overloads are present *)
Theorem C01_active_overloads :
  forallb (overload_ok false) active_overloads = true /\ overloads_complete active_overloads = true /\
  forallb (overload_ok true) active_reference_overloads = true /\ overloads_complete active_reference_overloads = true.
Proof. vm_compute. repeat split. Qed.
Print Assumptions C01_active_overloads.

(* the derivative expressions of the unary table and the binary partial derivatives are the true derivatives over R.
   _partial: asin, acos, erf, erfc, cbrt, atan2 and the (zero) derivatives of the rounding functions are not covered *)
Local Open Scope R_scope.
Theorem C01_table_partial : forall x,
  (0 < x -> is_derive (Rf1 F_log) x (un_derivative RF F_log x (Rf1 F_log x))) /\
  (-1 < x -> is_derive (Rf1 F_log1p) x (un_derivative RF F_log1p x (Rf1 F_log1p x))) /\
  is_derive (Rf1 F_sin) x (un_derivative RF F_sin x (Rf1 F_sin x)) /\
  is_derive (Rf1 F_cos) x (un_derivative RF F_cos x (Rf1 F_cos x)) /\
  (cos x <> 0 -> is_derive (Rf1 F_tan) x (un_derivative RF F_tan x (Rf1 F_tan x))) /\
  is_derive (Rf1 F_atan) x (un_derivative RF F_atan x (Rf1 F_atan x)) /\
  is_derive (Rf1 F_sinh) x (un_derivative RF F_sinh x (Rf1 F_sinh x)) /\
  is_derive (Rf1 F_cosh) x (un_derivative RF F_cosh x (Rf1 F_cosh x)) /\
  is_derive (Rf1 F_tanh) x (un_derivative RF F_tanh x (Rf1 F_tanh x)) /\
  (0 < x -> is_derive (Rf1 F_sqrt) x (un_derivative RF F_sqrt x (Rf1 F_sqrt x))) /\
  is_derive (Rf1 F_exp) x (un_derivative RF F_exp x (Rf1 F_exp x)) /\
  is_derive (Rf1 F_fastexp) x (un_derivative RF F_fastexp x (Rf1 F_fastexp x)) /\
  is_derive (Rf1 F_expm1) x (un_derivative RF F_expm1 x (Rf1 F_expm1 x)) /\
  is_derive (Rf1 F_uplus) x (un_derivative RF F_uplus x (Rf1 F_uplus x)) /\
  is_derive (Rf1 F_uminus) x (un_derivative RF F_uminus x (Rf1 F_uminus x)) /\
  (x <> 0 -> is_derive (Rf1 F_abs) x (un_derivative RF F_abs x (Rf1 F_abs x)) /\ is_derive (Rf1 F_fabs) x (un_derivative RF F_fabs x (Rf1 F_fabs x))) /\
  is_derive (Rf1 F_asinh) x (un_derivative RF F_asinh x (Rf1 F_asinh x)) /\
  (-1 < x < 1 -> is_derive (Rf1 F_atanh) x (un_derivative RF F_atanh x (Rf1 F_atanh x))) /\
  (0 < x -> exists d, is_derive (Rf1 F_log10) x d /\ Rabs (un_derivative RF F_log10 x (Rf1 F_log10 x) - d) <= 1/1000000000000000 * Rabs d) /\
  (0 < x -> exists d, is_derive (Rf1 F_log2) x d /\ Rabs (un_derivative RF F_log2 x (Rf1 F_log2 x) - d) <= 1/1000000000000000 * Rabs d) /\
  (exists d, is_derive (Rf1 F_exp2) x d /\ Rabs (un_derivative RF F_exp2 x (Rf1 F_exp2 x) - d) <= 1/1000000000000000 * Rabs d).
Proof.
  intros x. repeat match goal with |- _ /\ _ => split end.
  - exact (table_log x). - exact (table_log1p x). - exact (table_sin x). - exact (table_cos x). - exact (table_tan x).
  - exact (table_atan x). - exact (table_sinh x). - exact (table_cosh x). - exact (table_tanh x). - exact (table_sqrt x).
  - exact (table_exp x). - exact (table_fastexp x). - exact (table_expm1 x). - exact (table_uplus x). - exact (table_uminus x).
  - exact (table_abs x).
  - exact (table_asinh x). - exact (table_atanh x). - exact (table_log10 x). - exact (table_log2 x). - exact (table_exp2 x).
Qed.
Print Assumptions C01_table_partial.
Theorem C01_binary_partials : forall x y,
  (is_derive (fun t => bop RF KAdd t y) x (dleft RF KAdd x y) /\ is_derive (fun t => bop RF KAdd x t) y (dright RF KAdd x y)) /\
  (is_derive (fun t => bop RF KSub t y) x (dleft RF KSub x y) /\ is_derive (fun t => bop RF KSub x t) y (dright RF KSub x y)) /\
  (is_derive (fun t => bop RF KMul t y) x (dleft RF KMul x y) /\ is_derive (fun t => bop RF KMul x t) y (dright RF KMul x y)) /\
  (y <> 0 -> is_derive (fun t => bop RF KDiv t y) x (dleft RF KDiv x y) /\ is_derive (fun t => bop RF KDiv x t) y (dright RF KDiv x y)) /\
  (0 < x -> is_derive (fun t => bop RF KPow t y) x (dleft RF KPow x y) /\ is_derive (fun t => bop RF KPow x t) y (dright RF KPow x y)).
Proof.
  intros x y. split; [exact (partial_add x y)|]. split; [exact (partial_sub x y)|]. split; [exact (partial_mul x y)|].
  split; [exact (partial_div x y)|exact (partial_pow x y)].
Qed.
Print Assumptions C01_binary_partials.

(* non-vacuity: x2 = x0 * x1; x3 = x2 / x0 + x2 over the integers: values, tape and reverse gradient *)
Definition ZF : FOps Z := mkFOps Z ZOps (fun _ x => x) (fun _ x _ => x) (fun n d => Z.div n d).
Example C01_example :
  let p := [PSetE 2 (PBin KMul (PVar 0) (PVar 1)); PSetE 3 (PBin KAdd (PBin KSub (PVar 2) (PVar 0)) (PBin KMul (PVar 2) (PVar 2)))] in
  let vals0 := fun i : nat => match i with O => 3%Z | S O => 5%Z | _ => 0%Z end in
  fst (exec ZF p vals0) 3%nat = 237%Z /\
  rev_sweep ZOps (snd (exec ZF p vals0)) (unit_vec ZOps 3) 0%nat = 154%Z /\
  rev_sweep ZOps (snd (exec ZF p vals0)) (unit_vec ZOps 3) 1%nat = 93%Z.
Proof. vm_compute. repeat split. Qed.
