(* C13 — parallel Jacobian computation equals the serial one.
   Model: jac_fwd_omp / jac_rev_omp of Jacobian.v (jacobian.cpp:127-194, 331-452): ceil(k/M) blocks,
   each with a private zeroed buffer, visited in an arbitrary order [order] (= any static partition
   and any interleaving of whole blocks; blocks share only the read-only tape and write disjoint
   cells).  Theorems are over any commutative ring: no re-association takes place, every cell is
   produced by exactly one block, so equality with the serial routine is exact. *)
From Coq Require Import List Arith ZArith Permutation Ring.
From Adept Require Import Scalar Tape TapeAdjoint Jacobian JacobianProofs JacobianDefs JacobianGenProofs.
From AdeptGen Require Import Gen_Jacobian.
Import ListNotations.

Section C13.
Context {T : Type} (O : Ops T).
Hypothesis Rth : ring_theory (o0 O) (o1 O) (oadd O) (omul O) (osub O) (oneg O) (@eq T).
Hypothesis eqb_true : forall a b, oeqb O a b = true -> a = b.

(* the writes of the parallel routines are a permutation of the writes of the serial ones,
   whatever the order in which the blocks are executed *)
Theorem C13_same_writes : forall M, 1 <= M -> forall (t : tape) indeps deps d0 i0 ordf ordr,
  Permutation ordf (seq 0 (omp_blocks M (length indeps))) -> Permutation ordr (seq 0 (omp_blocks M (length deps))) ->
  Permutation (jac_fwd_omp O M t indeps deps ordf d0 i0) (jac_fwd_serial O M t indeps deps d0 i0) /\
  Permutation (jac_rev_omp O M t indeps deps ordr d0 i0) (jac_rev_serial O M t indeps deps d0 i0).
Proof. exact (omp_same_writes O Rth eqb_true). Qed.

(* hence the Jacobian memory is identical, address by address, for every schedule, provided the
   target layout maps distinct cells to distinct addresses (any sane dep_offset/indep_offset) *)
Theorem C13_schedule_independent : forall M, 1 <= M -> forall (t : tape) indeps deps d0 i0 ordf ordr mem,
  Permutation ordf (seq 0 (omp_blocks M (length indeps))) -> Permutation ordr (seq 0 (omp_blocks M (length deps))) ->
  addr_injective indeps deps (eff_dep_off indeps d0) (eff_indep_off deps i0) ->
  forall a, apply_writes (jac_fwd_omp O M t indeps deps ordf d0 i0) mem a = apply_writes (jac_fwd_serial O M t indeps deps d0 i0) mem a /\
            apply_writes (jac_rev_omp O M t indeps deps ordr d0 i0) mem a = apply_writes (jac_rev_serial O M t indeps deps d0 i0) mem a.
Proof. exact (omp_schedule_independent O Rth eqb_true). Qed.

(* two different blocks never write the same cell *)
Theorem C13_blocks_disjoint : forall M, 1 <= M -> forall (t : tape) indeps deps d0 i0,
  NoDup (map (fun w => (w_dep w, w_indep w)) (jac_fwd_omp O M t indeps deps (seq 0 (omp_blocks M (length indeps))) d0 i0)) /\
  NoDup (map (fun w => (w_dep w, w_indep w)) (jac_rev_omp O M t indeps deps (seq 0 (omp_blocks M (length deps))) d0 i0)).
Proof. exact (omp_blocks_disjoint O Rth eqb_true). Qed.
End C13.
Print Assumptions C13_same_writes.
Print Assumptions C13_schedule_independent.
Print Assumptions C13_blocks_disjoint.

(* non-vacuity: n = 5 independents, M = 2: three blocks, executed in the order 2,0,1 *)
Example C13_example :
  let t := [mkStmt 5 [(2%Z, 0); (3%Z, 1); (1%Z, 4)]; mkStmt 6 [(5%Z, 5); (7%Z, 2); (1%Z, 3)]] in
  Permutation [2;0;1] (seq 0 (omp_blocks 2 5)) /\
  map (fun a => apply_writes (jac_fwd_omp ZOps 2 t [0;1;2;3;4] [5;6] [2;0;1] 1 0) (fun _ => (-7)%Z) (Z.of_nat a)) (seq 0 10)
  = map (fun a => apply_writes (jac_fwd_serial ZOps 2 t [0;1;2;3;4] [5;6] 1 0) (fun _ => (-7)%Z) (Z.of_nat a)) (seq 0 10).
Proof. split; [vm_compute; apply perm_trans with [0;2;1]; [apply perm_swap|apply perm_skip; apply perm_swap]|vm_compute; reflexivity]. Qed.

(* tie G: every store into jacobian_out and every seed statement of adept/jacobian.cpp, TRANSLATED on each run
   (routine, branch of `if (<offset> == 1)`, loop variables and bounds, address expression, work-array element):
   the address is the one the model writes (model_addr = the formula of fwd_block_writes / rev_block_writes), the
   element copied is (gradient index of the outer variable, lane i), the tested offset and the loop bounds are the
   modelled ones, and both branches of every loop nest of all four routines are present *)
Theorem C13_generated_stores_and_seeds :
  Forall site_ok jacobian_sites /\ Forall seed_ok jacobian_seeds /\ sites_complete jacobian_sites jacobian_seeds = true.
Proof. exact (conj generated_sites_ok (conj generated_seeds_ok generated_sites_complete)). Qed.
Print Assumptions C13_generated_stores_and_seeds.
Theorem C13_model_address_is_the_models : forall (T : Type) (l : list nat) (g : nat -> nat -> T) i0 bs doff ioff w,
  (In w (fwd_block_writes l g i0 bs doff ioff) ->
     exists idep i, (i < bs)%nat /\ w_dep w = idep /\ w_indep w = (i0 + i)%nat /\ w_addr w = model_addr true (ioff =? 1)%Z idep i0 i doff ioff) /\
  (In w (rev_block_writes l g i0 bs doff ioff) ->
     exists iindep i, (i < bs)%nat /\ w_indep w = iindep /\ w_dep w = (i0 + i)%nat /\ w_addr w = model_addr false (doff =? 1)%Z iindep i0 i doff ioff).
Proof. intros T l g i0 bs doff ioff w. split; [exact (fwd_block_addr l g i0 bs doff ioff w)|exact (rev_block_addr l g i0 bs doff ioff w)]. Qed.
Print Assumptions C13_model_address_is_the_models.
