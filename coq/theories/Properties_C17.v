(* C17 — special matrices behave as the dense matrices they stand for.
   The integer functions of the ten storage engines are GENERATED from include/adept/SpecialMatrix.h
   (AdeptGen.Gen_Engines) on every run; Engines.v adds the dense semantics and the traversal.  Every
   theorem is for all dimensions, offsets (packed or sub-matrix) and band widths. *)
From Coq Require Import ZArith List Bool.
From AdeptGen Require Import Gen_Engines.
From Adept Require Import Engines EnginesProofs.
Import ListNotations.
Local Open Scope Z_scope.

(* stored positions lie inside the allocated data *)
Theorem C17_inbounds : forall e L U dim off i j, 0 <= off -> in_range dim i j -> stored e L U i j = true ->
  0 <= index e L U i j off < data_size e L U dim off.
Proof. exact index_in_bounds. Qed.
Print Assumptions C17_inbounds.

(* distinct stored positions (modulo the mirror image of a symmetric matrix) occupy distinct locations *)
Theorem C17_injective : forall e L U dim off i j i' j', band_ok e L U -> off_ok e L U dim off ->
  in_range dim i j -> in_range dim i' j' -> stored e L U i j = true -> stored e L U i' j' = true ->
  index e L U i j off = index e L U i' j' off -> canon e i j = canon e i' j'.
Proof. exact index_injective. Qed.
Print Assumptions C17_injective.

(* reading row i inside an expression (set_location_, value_at_location, advance_location_) yields the
   dense row: mirrored for symmetric, zero outside the triangle or band.  [read_ok]: engines that advance
   by the offset need offset >= 1 *)
Theorem C17_read : forall (T : Type) (zero : T) e L U (data : Z -> T) dim off i j, read_ok e off -> in_range dim i j ->
  nth (Z.to_nat j) (read_row zero e L U data dim off i) zero = dense zero e L U data off i j.
Proof. intros T zero. exact (read_row_is_dense zero). Qed.
Print Assumptions C17_read.

(* a write to a stored position changes exactly that entry and its mirror image *)
Theorem C17_write : forall (T : Type) (zero : T) e L U (data : Z -> T) dim off i j i' j' x,
  band_ok e L U -> off_ok e L U dim off -> in_range dim i j -> in_range dim i' j' ->
  stored e L U i j = true -> stored e L U i' j' = true ->
  dense zero e L U (fun p => if p =? index e L U i j off then x else data p) off i' j' =
  (if (fst (canon e i' j') =? fst (canon e i j)) && (snd (canon e i' j') =? snd (canon e i j)) then x
   else dense zero e L U data off i' j').
Proof. intros T zero. exact (write_dense zero). Qed.
Print Assumptions C17_write.

(* T(): the transposed engine on the same data is the transposed dense matrix; the engine is GENERATED from the
   transpose_engine typedefs (for a band matrix it depends on the band widths: a diagonal matrix stays row-major) *)
Theorem C17_transpose : forall (T : Type) (zero : T) e L U (data : Z -> T) off i j, band_ok e L U ->
  let (L', U') := if transpose_swaps_LU e then (U, L) else (L, U) in
  dense zero (transpose_engine e L U) L' U' data off i j = dense zero e L U data off j i.
Proof. intros T zero. exact (transpose_dense zero). Qed.
Print Assumptions C17_transpose.

(* ... and it can be read inside expressions (hypothesis of C17_read) whenever the matrix owns its data
   (offset = pack_offset) or is a sub-matrix with a positive offset that could itself be read *)
Theorem C17_transpose_readable : forall e L U dim off, band_ok e L U -> 1 <= dim ->
  off = pack_offset e L U dim \/ (read_ok e off /\ 1 <= off) -> read_ok (transpose_engine e L U) off.
Proof. exact transpose_read_ok. Qed.
Print Assumptions C17_transpose_readable.

(* diag_vector(k) views the k-th diagonal *)
Theorem C17_diag : forall (T : Type) (zero : T) e L U (data : Z -> T) dim off k t, 0 <= t < diag_len dim k ->
  (if 0 <=? k then stored e L U t (t + k) else stored e L U (t - k) t) = true ->
  data (diag_base e L U dim off k + t * (off + 1)) =
  (if 0 <=? k then dense zero e L U data off t (t + k) else dense zero e L U data off (t - k) t).
Proof. intros T zero. exact (diag_vector_dense zero). Qed.
Print Assumptions C17_diag.

(* submatrix_on_diagonal(a,b) is the diagonal block *)
Theorem C17_submatrix : forall (T : Type) (zero : T) e L U (data : Z -> T) off a i j,
  dense zero e L U (fun p => data (sub_base off a + p)) off i j = dense zero e L U data off (i + a) (j + a).
Proof. intros T zero. exact (submatrix_dense zero). Qed.
Print Assumptions C17_submatrix.

(* assignment from an expression writes, in row i, column j at location index(i,j), for exactly the stored
   part of the row (one triangle for symmetric matrices) *)
Theorem C17_assign : forall e L U dim off i, band_ok e L U -> 0 <= i < dim ->
  forall j loc, In (j, loc) (assign_row_targets e L U dim off i) <-> (row_part e L U dim i j /\ loc = index e L U i j off).
Proof. exact assign_row_targets_spec. Qed.
Print Assumptions C17_assign.

(* non-vacuity: a packed tridiagonal 4x4 (offset = pack_offset = 2), row 2 *)
Example C17_example :
  read_ok BandR (pack_offset BandR 1 1 4) /\
  read_row 0 BandR 1 1 (fun p => 100 + p) 4 (pack_offset BandR 1 1 4) 2 = [0; 105; 106; 107].
Proof. split; [exact I|vm_compute; reflexivity]. Qed.

(* non-vacuity for the transpose theorems: the transpose of a packed 3x3 diagonal matrix (offset 0) keeps the
   row-major engine and row 1 reads 0 d1 0; a packed tridiagonal matrix goes to the column-major engine *)
Example C17_example_transpose :
  let off := pack_offset BandR 0 0 3 in
  off = 0 /\ transpose_engine BandR 0 0 = BandR /\ read_ok (transpose_engine BandR 0 0) off /\
  read_row 0 (transpose_engine BandR 0 0) 0 0 (fun p => 7 + p) 3 off 1 = [0; 8; 0] /\
  transpose_engine BandR 1 1 = BandC /\ read_ok BandC (pack_offset BandR 1 1 3).
Proof. vm_compute. repeat split; discriminate. Qed.
