(* The life cycle of a recording (Stack.h:290-305, 479-577, 586-654; Stack.cpp:139-190, 512-531): the working
   gradient buffer is allocated lazily at the first seed, zeroed over [0, max_gradient), reused by later passes;
   clear_gradients only drops the "initialised" flag; new_recording empties the tape and the variable lists;
   pause_recording makes every recording site a no-op; add/append_derivative_dependence push a hand-made
   statement (zero multipliers dropped).  Jacobians use private buffers. *)
From Coq Require Import List Arith Bool.
From Adept Require Import Scalar Tape.
Import ListNotations.

Section Protocol.
Context {T : Type} (O : Ops T).
Inductive ekind := ENotInit | ERange | EWrongGradient.   (* gradients_not_initialized, gradient_out_of_range, wrong_gradient *)
Record pstate := mkP {
  tp : tape (T:=T); buf : nat -> T; init : bool; ngrad : nat;
  ninit : nat;     (* n_gradients_initialized_: entries zeroed by the last initialize_gradients *)
  nalloc : nat;    (* n_allocated_gradients_: length of the buffer *)
  indep : list nat; dep : list nat; recording : bool;
  errs : list ekind;   (* exceptions thrown so far, most recent first *)
  oob : nat            (* accesses at or beyond the allocated length (never happens: theorem) *)
}.
Inductive pop :=
| ORecord (s : stmt (T:=T))            (* a differential statement produced by user code *)
| ORegister (k : nat)                  (* active objects were created: indices below k are in use *)
| ONewRecording (ig : nat)             (* new_recording() when i_gradient_ = ig *)
| OSeed (i : nat) (x : T) | OForward | OReverse | OClearGradients
| OIndependent (i : nat) | ODependent (i : nat) | OClearIndependents | OClearDependents
| OPause | OContinue
| OAddDep (l : nat) (ops : list (T * nat)) | OAppendDep (l : nat) (ops : list (T * nat)).

Definition stmt_lt (n : nat) (s : stmt (T:=T)) : bool := Nat.ltb (lhs s) n && forallb (fun mi => Nat.ltb (snd mi) n) (rhs s).
Definition set_tp (st : pstate) (t : tape) : pstate :=
  mkP t (buf st) (init st) (ngrad st) (ninit st) (nalloc st) (indep st) (dep st) (recording st) (errs st) (oob st).
Definition set_buf (st : pstate) (b : nat -> T) : pstate :=
  mkP (tp st) b (init st) (ngrad st) (ninit st) (nalloc st) (indep st) (dep st) (recording st) (errs st) (oob st).
Definition add_err (st : pstate) (k : ekind) : pstate :=
  mkP (tp st) (buf st) (init st) (ngrad st) (ninit st) (nalloc st) (indep st) (dep st) (recording st) (k :: errs st) (oob st).
Definition set_lists (st : pstate) (xi xd : list nat) : pstate :=
  mkP (tp st) (buf st) (init st) (ngrad st) (ninit st) (nalloc st) xi xd (recording st) (errs st) (oob st).
Definition set_recording (st : pstate) (r : bool) : pstate :=
  mkP (tp st) (buf st) (init st) (ngrad st) (ninit st) (nalloc st) (indep st) (dep st) r (errs st) (oob st).
(* initialize_gradients (Stack.cpp): reallocate if too short, zero [0, max_gradient), remember that length *)
Definition initialize (st : pstate) : pstate :=
  mkP (tp st) (fun i => if Nat.ltb i (ngrad st) then o0 O else buf st i) true (ngrad st) (ngrad st) (Nat.max (nalloc st) (ngrad st))
      (indep st) (dep st) (recording st) (errs st) (oob st).
(* extend_gradients before a sweep: cover objects created since the initialisation, with zero gradient *)
Definition extend (st : pstate) : pstate :=
  mkP (tp st) (fun i => if Nat.leb (ninit st) i && Nat.ltb i (ngrad st) then o0 O else buf st i) (init st) (ngrad st) (ninit st)
      (Nat.max (nalloc st) (ngrad st)) (indep st) (dep st) (recording st) (errs st) (oob st).
(* a sweep touches every index below max_gradient: out of bounds if the buffer is shorter *)
Definition sweep_oob (st : pstate) : nat := if Nat.leb (ngrad st) (nalloc st) then oob st else S (oob st).
Fixpoint append_last (t : tape (T:=T)) (l : nat) (ops : list (T * nat)) : option tape :=
  match t with
  | [] => None
  | [s] => if Nat.eqb (lhs s) l then Some [mkStmt l (rhs s ++ ops)] else None
  | s :: t' => match append_last t' l ops with Some t'' => Some (s :: t'') | None => None end
  end.

Definition pstep (st : pstate) (o : pop) : pstate :=
  match o with
  | ORecord s => if recording st && stmt_lt (ngrad st) s then set_tp st (tp st ++ [s]) else st
  | ORegister k => if recording st
      then mkP (tp st) (buf st) (init st) (Nat.max (ngrad st) k) (ninit st) (nalloc st) (indep st) (dep st) true (errs st) (oob st) else st
  | ONewRecording ig => mkP [] (buf st) false (S ig) (ninit st) (nalloc st) [] [] (recording st) (errs st) (oob st)
  | OSeed i x =>
      let st1 := if init st then st else initialize st in
      if Nat.ltb i (ninit st1)
      then mkP (tp st1) (upd (buf st1) i x) true (ngrad st1) (ninit st1) (nalloc st1) (indep st1) (dep st1) (recording st1) (errs st1)
               (if Nat.ltb i (nalloc st1) then oob st1 else S (oob st1))
      else add_err st1 ERange
  | OForward => if init st then let e := extend st in
                  mkP (tp e) (fwd_sweep O (tp e) (buf e)) true (ngrad e) (ninit e) (nalloc e) (indep e) (dep e) (recording e) (errs e) (sweep_oob e)
                else add_err st ENotInit
  | OReverse => if init st then let e := extend st in
                  mkP (tp e) (rev_sweep O (tp e) (buf e)) true (ngrad e) (ninit e) (nalloc e) (indep e) (dep e) (recording e) (errs e) (sweep_oob e)
                else add_err st ENotInit
  | OClearGradients => mkP (tp st) (buf st) false (ngrad st) (ninit st) (nalloc st) (indep st) (dep st) (recording st) (errs st) (oob st)
  | OIndependent i => set_lists st (indep st ++ [i]) (dep st)
  | ODependent i => set_lists st (indep st) (dep st ++ [i])
  | OClearIndependents => set_lists st [] (dep st)
  | OClearDependents => set_lists st (indep st) []
  | OPause => set_recording st false
  | OContinue => set_recording st true
  | OAddDep l ops => let s := mkStmt l (drop_zeros O ops) in
      if recording st && stmt_lt (ngrad st) s then set_tp st (tp st ++ [s]) else st
  | OAppendDep l ops =>
      if recording st && forallb (fun mi => Nat.ltb (snd mi) (ngrad st)) ops
      then match append_last (tp st) l (drop_zeros O ops) with Some t => set_tp st t | None => add_err st EWrongGradient end
      else st
  end.
Definition prun (ops : list pop) (st : pstate) : pstate := fold_left pstep ops st.
Definition pinit : pstate := mkP [] (fun _ => o0 O) false 1 0 0 [] [] true [] 0.

(* observations *)
Definition obs_gradient (st : pstate) (i : nat) : option T := if init st && Nat.ltb i (ninit st) then Some (buf st i) else None.
(* what get_gradient throws *)
Definition obs_gradient_error (st : pstate) (i : nat) : option ekind :=
  if negb (init st) then Some ENotInit else if Nat.ltb i (ninit st) then None else Some ERange.
Definition obs_jacobian (st : pstate) : list (list T) :=
  map (fun j => map (fun i => fwd_sweep O (tp st) (unit_vec O j) i) (dep st)) (indep st).
Definition obs_counts (st : pstate) : nat * nat := (length (tp st), fold_left (fun a s => a + length (rhs s)) (tp st) 0).
(* the seed vector a list of set_gradient calls builds on a zeroed buffer of n entries *)
Definition seedvec (n : nat) (seeds : list (nat * T)) : nat -> T :=
  fold_left (fun g ix => if Nat.ltb (fst ix) n then upd g (fst ix) (snd ix) else g) seeds (fun _ => o0 O).
End Protocol.
