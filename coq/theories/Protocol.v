(* The life cycle of a recording (Stack.h:290-305, 479-577, 586-654; Stack.cpp:139-190, 512-531): the working
   gradient buffer is allocated lazily at the first seed, zeroed over [0, max_gradient), reused by later passes;
   clear_gradients only drops the "initialised" flag; new_recording empties the tape and the variable lists;
   pause_recording makes every recording site a no-op; add/append_derivative_dependence push a hand-made
   statement (zero multipliers dropped).  Jacobians use private buffers. *)
From Coq Require Import List Arith Bool.
From Adept Require Import Scalar Tape.
Import ListNotations.

Section Protocol.
Context {T : Type} (O : Ops T).
Record pstate := mkP {
  tp : tape (T:=T); buf : nat -> T; init : bool; ngrad : nat; nalloc : nat;
  indep : list nat; dep : list nat; recording : bool;
  errs : nat;      (* exceptions thrown so far (gradients_not_initialized, gradient_out_of_range, wrong_gradient) *)
  oob : nat        (* stores beyond the allocated buffer (never happens when the protocol is respected) *)
}.
Inductive pop :=
| ORecord (s : stmt (T:=T))            (* a differential statement produced by user code *)
| ORegister (k : nat)                  (* active objects were created: indices below k are in use *)
| ONewRecording (ig : nat)             (* new_recording() when i_gradient_ = ig *)
| OSeed (i : nat) (x : T) | OForward | OReverse | OClearGradients
| OIndependent (i : nat) | ODependent (i : nat) | OClearIndependents | OClearDependents
| OPause | OContinue
| OAddDep (l : nat) (ops : list (T * nat)) | OAppendDep (l : nat) (ops : list (T * nat)).

Definition stmt_lt (n : nat) (s : stmt (T:=T)) : bool := Nat.ltb (lhs s) n && forallb (fun mi => Nat.ltb (snd mi) n) (rhs s).
Definition initialize (st : pstate) : pstate :=
  mkP (tp st) (fun i => if Nat.ltb i (ngrad st) then o0 O else buf st i) true (ngrad st) (Nat.max (nalloc st) (ngrad st))
      (indep st) (dep st) (recording st) (errs st) (oob st).
Definition set_tp (st : pstate) (t : tape) : pstate :=
  mkP t (buf st) (init st) (ngrad st) (nalloc st) (indep st) (dep st) (recording st) (errs st) (oob st).
Definition set_buf (st : pstate) (b : nat -> T) : pstate :=
  mkP (tp st) b (init st) (ngrad st) (nalloc st) (indep st) (dep st) (recording st) (errs st) (oob st).
Definition add_err (st : pstate) : pstate :=
  mkP (tp st) (buf st) (init st) (ngrad st) (nalloc st) (indep st) (dep st) (recording st) (S (errs st)) (oob st).
Fixpoint append_last (t : tape (T:=T)) (l : nat) (ops : list (T * nat)) : option tape :=
  match t with
  | [] => None
  | [s] => if Nat.eqb (lhs s) l then Some [mkStmt l (rhs s ++ ops)] else None
  | s :: t' => match append_last t' l ops with Some t'' => Some (s :: t'') | None => None end
  end.

Definition pstep (st : pstate) (o : pop) : pstate :=
  match o with
  | ORecord s => if recording st && stmt_lt (ngrad st) s then set_tp st (tp st ++ [s]) else st
  | ORegister k => if recording st then mkP (tp st) (buf st) (init st) (Nat.max (ngrad st) k) (nalloc st) (indep st) (dep st) true (errs st) (oob st) else st
  | ONewRecording ig => mkP [] (buf st) false (S ig) (nalloc st) [] [] (recording st) (errs st) (oob st)
  | OSeed i x =>
      let st1 := if init st then st else initialize st in
      if Nat.ltb i (ngrad st1)
      then mkP (tp st1) (upd (buf st1) i x) true (ngrad st1) (nalloc st1) (indep st1) (dep st1) (recording st1) (errs st1)
               (if Nat.ltb i (nalloc st1) then oob st1 else S (oob st1))
      else add_err st1
  | OForward => if init st then set_buf st (fwd_sweep O (tp st) (buf st)) else add_err st
  | OReverse => if init st then set_buf st (rev_sweep O (tp st) (buf st)) else add_err st
  | OClearGradients => mkP (tp st) (buf st) false (ngrad st) (nalloc st) (indep st) (dep st) (recording st) (errs st) (oob st)
  | OIndependent i => mkP (tp st) (buf st) (init st) (ngrad st) (nalloc st) (indep st ++ [i]) (dep st) (recording st) (errs st) (oob st)
  | ODependent i => mkP (tp st) (buf st) (init st) (ngrad st) (nalloc st) (indep st) (dep st ++ [i]) (recording st) (errs st) (oob st)
  | OClearIndependents => mkP (tp st) (buf st) (init st) (ngrad st) (nalloc st) [] (dep st) (recording st) (errs st) (oob st)
  | OClearDependents => mkP (tp st) (buf st) (init st) (ngrad st) (nalloc st) (indep st) [] (recording st) (errs st) (oob st)
  | OPause => mkP (tp st) (buf st) (init st) (ngrad st) (nalloc st) (indep st) (dep st) false (errs st) (oob st)
  | OContinue => mkP (tp st) (buf st) (init st) (ngrad st) (nalloc st) (indep st) (dep st) true (errs st) (oob st)
  | OAddDep l ops => let s := mkStmt l (drop_zeros O ops) in
      if recording st && stmt_lt (ngrad st) s then set_tp st (tp st ++ [s]) else st
  | OAppendDep l ops =>
      if recording st && forallb (fun mi => Nat.ltb (snd mi) (ngrad st)) ops
      then match append_last (tp st) l (drop_zeros O ops) with Some t => set_tp st t | None => add_err st end
      else st
  end.
Definition prun (ops : list pop) (st : pstate) : pstate := fold_left pstep ops st.
Definition pinit : pstate := mkP [] (fun _ => o0 O) false 1 0 [] [] true 0 0.

(* observations *)
Definition obs_gradient (st : pstate) (i : nat) : option T := if init st && Nat.ltb i (ngrad st) then Some (buf st i) else None.
Definition obs_jacobian (st : pstate) : list (list T) :=
  map (fun j => map (fun i => fwd_sweep O (tp st) (unit_vec O j) i) (dep st)) (indep st).
Definition obs_counts (st : pstate) : nat * nat := (length (tp st), fold_left (fun a s => a + length (rhs s)) (tp st) 0).
(* the seed vector a list of set_gradient calls builds on a zeroed buffer of n entries *)
Definition seedvec (n : nat) (seeds : list (nat * T)) : nat -> T :=
  fold_left (fun g ix => if Nat.ltb (fst ix) n then upd g (fst ix) (snd ix) else g) seeds (fun _ => o0 O).
End Protocol.
