(* Array::operator()(i0,...,ik) as tools/gen_slice.py reads it from Array.h on every run (the two update_index helpers,
   the rank-1 ranged operator, the skeleton of the multi-argument overloads), re-assembled and proved to be the model's
   [slice] (View.v) for every view and every index list. *)
From Coq Require Import ZArith List Lia ZifyBool.
From Adept Require Import View.
From AdeptGen Require Import Gen_Slice.
Import ListNotations.
Local Open Scope Z_scope.

(* update_index applied to the arguments in order; ib is the C++ ibegin *)
Fixpoint gen_slice_go (l : list ix) (ds ss : list Z) (ib : Z) : Z * list Z * list Z :=
  match l, ds, ss with
  | IS i :: l', d :: ds', s :: ss' => gen_slice_go l' ds' ss' (sl_scalar_begin ib (res d i) s)
  | IR bb ee st :: l', d :: ds', s :: ss' =>
      let '(ib', nd, ns) := gen_slice_go l' ds' ss' (sl_range_begin ib (res d bb) (res d ee) st s) in
      (ib', sl_range_dim (res d bb) (res d ee) st s :: nd, sl_range_stride (res d bb) (res d ee) st s :: ns)
  | _, _, _ => (ib, [], [])
  end.
Definition gen_slice (v : view) (l : list ix) : view :=
  let '(ib, nd, ns) := gen_slice_go l (dims v) (strides v) sl_start in mkView (base v + ib) nd ns.
(* the rank-1 ranged operator() *)
Definition gen_slice1 (b0 d s : Z) (bb ee : iv) (st : Z) : view :=
  mkView (b0 + sl1_begin (res d bb) (res d ee) st s) [sl1_dim (res d bb) (res d ee) st s] [sl1_stride (res d bb) (res d ee) st s].

Lemma gen_slice_go_eq : forall l ds ss ib b0,
  slice_go l ds ss (b0 + ib) = let '(ib', nd, ns) := gen_slice_go l ds ss ib in (b0 + ib', nd, ns).
Proof.
  induction l as [|x l IH]; intros ds ss ib b0; [reflexivity|].
  destruct x as [i|bb ee st]; destruct ds as [|d ds]; try reflexivity; destruct ss as [|s ss]; try reflexivity;
    cbn [slice_go gen_slice_go].
  - unfold sl_scalar_begin. rewrite <- Z.add_assoc. apply IH.
  - unfold sl_range_begin, sl_range_dim, sl_range_stride. rewrite <- Z.add_assoc. rewrite IH.
    destruct (gen_slice_go l ds ss (ib + res d bb * s)) as [[ib' nd] ns]. reflexivity.
Qed.

Lemma gen_slice_eq : forall v l, gen_slice v l = slice v l.
Proof.
  intros v l. unfold gen_slice, slice, sl_start.
  pose proof (gen_slice_go_eq l (dims v) (strides v) 0 (base v)) as H. rewrite Z.add_0_r in H. rewrite H.
  destruct (gen_slice_go l (dims v) (strides v) 0) as [[ib nd] ns]. reflexivity.
Qed.

Lemma gen_slice1_eq : forall b0 d s bb ee st, gen_slice1 b0 d s bb ee st = slice (mkView b0 [d] [s]) [IR bb ee st].
Proof. intros. reflexivity. Qed.

(* diag_vector(offdiag) and submatrix_on_diagonal(ibegin, iend) of a rank-2 view, from the generated pieces *)
Definition gen_diag_vector (v : view) (k : Z) : view :=
  match dims v, strides v with
  | [d0; d1], [s0; s1] =>
      if dg_first_branch k then mkView (dgp_base (base v) d0 d1 s0 s1 k) [dgp_dim (base v) d0 d1 s0 s1 k] [dgp_stride (base v) d0 d1 s0 s1 k]
      else mkView (dgn_base (base v) d0 d1 s0 s1 k) [dgn_dim (base v) d0 d1 s0 s1 k] [dgn_stride (base v) d0 d1 s0 s1 k]
  | _, _ => v
  end.
Definition gen_submatrix_on_diagonal (v : view) (ib ie : Z) : view :=
  match dims v, strides v with
  | [d0; d1], [s0; s1] => mkView (sd_base (base v) s0 s1 ib ie) [sd_len ib ie; sd_len ib ie] [s0; s1]
  | _, _ => v
  end.

(* from what the branches compute: a branch test that differs from the model's only at offdiag = 0, where the two
   branches agree, still passes *)
Lemma gen_diag_vector_eq : forall v k, gen_diag_vector v k = diag_vector v k.
Proof.
  intros v k. unfold gen_diag_vector, diag_vector.
  destruct (dims v) as [|d0 [|d1 [|? ?]]]; try reflexivity.
  destruct (strides v) as [|s0 [|s1 [|? ?]]]; try reflexivity.
  unfold dgp_base, dgp_dim, dgp_stride, dgn_base, dgn_dim, dgn_stride.
  destruct (dg_first_branch k) eqn:E1; destruct (Z.leb_spec 0 k) as [H|H]; try reflexivity; unfold dg_first_branch in E1;
    assert (Hk : k = 0) by lia; subst k; rewrite !Z.mul_0_r, !Z.add_0_r, !Z.sub_0_r; reflexivity.
Qed.
Lemma gen_submatrix_on_diagonal_eq : forall v ib ie, gen_submatrix_on_diagonal v ib ie = submatrix_on_diagonal v ib ie.
Proof.
  intros v ib ie. unfold gen_submatrix_on_diagonal, submatrix_on_diagonal.
  destruct (dims v) as [|d0 [|d1 [|? ?]]]; try reflexivity.
  all: destruct (strides v) as [|s0 [|s1 [|? ?]]]; reflexivity.
Qed.

(* T() of a matrix (a link to *this, then in_place_transpose()) and reshape(dims) of a vector *)
Definition gen_transpose (v : view) : view :=
  match dims v, strides v with
  | [d0; d1], [s0; s1] => mkView (base v) [tr_d0 d0 d1 s0 s1; tr_d1 d0 d1 s0 s1] [tr_s0 d0 d1 s0 s1; tr_s1 d0 d1 s0 s1]
  | _, _ => v
  end.
Fixpoint gen_reshape_strides (nd : list Z) (s0 : Z) : list Z :=
  match nd with
  | [] => []
  | [d] => [rs_last s0]
  | d :: (d' :: _) as rest =>
      match gen_reshape_strides rest s0 with
      | s' :: ss => rs_step d' s' :: s' :: ss
      | [] => []
      end
  end.
Definition gen_reshape (v : view) (nd : list Z) : view :=
  match strides v with
  | [s0] => mkView (base v) nd (gen_reshape_strides nd s0)
  | _ => v
  end.

Lemma gen_transpose_eq : forall v, gen_transpose v = transpose v.
Proof.
  intros v. unfold gen_transpose, transpose.
  destruct (dims v) as [|d0 [|d1 [|? ?]]]; try reflexivity.
  all: destruct (strides v) as [|s0 [|s1 [|? ?]]]; reflexivity.
Qed.
Lemma gen_reshape_strides_eq : forall nd s0, gen_reshape_strides nd s0 = reshape_strides nd s0.
Proof.
  induction nd as [|d nd IH]; intros s0; [reflexivity|].
  destruct nd as [|d' nd']; [reflexivity|].
  change (gen_reshape_strides (d :: d' :: nd') s0) with
    (match gen_reshape_strides (d' :: nd') s0 with s' :: ss => rs_step d' s' :: s' :: ss | [] => [] end).
  change (reshape_strides (d :: d' :: nd') s0) with
    (match reshape_strides (d' :: nd') s0 with s' :: ss => d' * s' :: s' :: ss | [] => [] end).
  rewrite IH. destruct (reshape_strides (d' :: nd') s0); reflexivity.
Qed.
Lemma gen_reshape_eq : forall v nd, gen_reshape v nd = reshape v nd.
Proof.
  intros v nd. unfold gen_reshape, reshape.
  destruct (strides v) as [|s0 [|? ?]]; try reflexivity. all: rewrite gen_reshape_strides_eq; reflexivity.
Qed.

(* operator[](i) on rank > 1 *)
Definition gen_index0 (v : view) (i : iv) : view :=
  match dims v, strides v with
  | d :: ds, s :: ss => mkView (base v + ix_offset (res d i) s) ds ss
  | _, _ => v
  end.
Lemma gen_index0_eq : forall v i, gen_index0 v i = index0 v i.
Proof.
  intros v i. unfold gen_index0, index0, ix_offset.
  destruct (dims v) as [|d ds]; try reflexivity. all: destruct (strides v) as [|s ss]; reflexivity.
Qed.
