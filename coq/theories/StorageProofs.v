(* C07: reference-count invariant of the array life-cycle model (Storage.v), for every history. *)
From Coq Require Import ZArith List Bool Arith Lia.
From Adept Require Import Storage.
Import ListNotations.
Local Open Scope Z_scope.

(* ---------- list helpers ---------- *)
Lemma length_set_nth {A} k (x : A) l : length (set_nth k x l) = length l.
Proof. revert k; induction l as [|h t IH]; intros [|k]; simpl; auto. Qed.
Lemma nth_set_nth_same {A} k (x d : A) l : (k < length l)%nat -> nth k (set_nth k x l) d = x.
Proof. revert k; induction l as [|h t IH]; intros [|k] H; simpl in *; try lia; auto. apply IH; lia. Qed.
Lemma nth_set_nth_other {A} k j (x d : A) l : j <> k -> nth j (set_nth k x l) d = nth j l d.
Proof. revert k j; induction l as [|h t IH]; intros [|k] [|j] H; simpl; auto; try congruence. Qed.

Lemma set_nth_overflow {A} (x : A) l : forall k, (length l <= k)%nat -> set_nth k x l = l.
Proof. induction l as [|h t IH]; intros [|k] H; simpl in *; try lia; auto. f_equal. apply IH. lia. Qed.

(* ---------- who holds a link to storage s ---------- *)
Definition holds (a : arr) (s : nat) : Z :=
  if live a && owns a && (match plc a with PSto t => Nat.eqb t s | _ => false end) then 1 else 0.
Fixpoint refs (l : list arr) (s : nat) : Z := match l with [] => 0 | a :: t => holds a s + refs t s end.
Definition nonholding (a : arr) : Prop := forall s, holds a s = 0.

Lemma holds_01 a s : 0 <= holds a s <= 1.
Proof. unfold holds. destruct (live a && owns a && _); lia. Qed.
Lemma refs_nonneg l s : 0 <= refs l s.
Proof. induction l as [|a t IH]; simpl; [lia|]. pose proof (holds_01 a s). lia. Qed.
Lemma refs_set_nth l : forall k x s, (k < length l)%nat ->
  refs (set_nth k x l) s = refs l s - holds (nth k l dead_arr) s + holds x s.
Proof. induction l as [|h t IH]; intros [|k] x s H; simpl in *; try lia. rewrite IH by lia. lia. Qed.
Lemma refs_ge_nth l k s : (k < length l)%nat -> holds (nth k l dead_arr) s <= refs l s.
Proof. revert k; induction l as [|h t IH]; intros [|k] H; simpl in *; try lia.
  - pose proof (refs_nonneg t s). lia. - specialize (IH k ltac:(lia)). pose proof (holds_01 h s). lia. Qed.
Lemma refs_repeat_dead n s : refs (repeat dead_arr n) s = 0.
Proof. induction n; simpl; auto. Qed.
Lemma nonholding_dead : nonholding dead_arr. Proof. intro s. reflexivity. Qed.
Lemma nonholding_empty : nonholding empty_arr. Proof. intro s. reflexivity. Qed.
Lemma nonholding_notowns a : owns a = false -> nonholding a.
Proof. intros H s. unfold holds. rewrite H, andb_false_r. reflexivity. Qed.
Lemma nonholding_notlive a : live a = false -> nonholding a.
Proof. intros H s. unfold holds. rewrite H. reflexivity. Qed.
Lemma holds_owner s n o l : holds (mkArr true true (PSto s) o l) n = if Nat.eqb s n then 1 else 0.
Proof. reflexivity. Qed.

(* ---------- the invariant ---------- *)
Fixpoint unfreed (l : list sto) : Z := match l with [] => 0 | o :: t => (if freed o then 0 else 1) + unfreed t end.
Definition dsto : sto := mkSto 0 true [].
Record Inv (st : state) : Prop := mkInv {
  inv_sto : forall s, (s < length (stos st))%nat ->
      let o := nth s (stos st) dsto in
      (freed o = false -> links o = refs (arrs st) s /\ 1 <= links o) /\ (freed o = true -> refs (arrs st) s = 0);
  inv_rng : forall s, (length (stos st) <= s)%nat -> refs (arrs st) s = 0;
  inv_cnt : created st - deleted st = unfreed (stos st);
  inv_flt : faults st = 0
}.

Lemma unfreed_set_nth l : forall k o, (k < length l)%nat ->
  unfreed (set_nth k o l) = unfreed l - (if freed (nth k l dsto) then 0 else 1) + (if freed o then 0 else 1).
Proof. induction l as [|h t IH]; intros [|k] o H; simpl in *; try lia. rewrite IH by lia. lia. Qed.
Lemma unfreed_app l1 l2 : unfreed (l1 ++ l2) = unfreed l1 + unfreed l2.
Proof. induction l1; simpl; lia. Qed.

Lemma Inv_init n b : Inv (sinit n b).
Proof. constructor; simpl; try reflexivity; intros; try lia. apply refs_repeat_dead. Qed.

(* an array that holds s keeps s alive *)
Lemma holder_unfreed st i s : Inv st -> (i < length (arrs st))%nat -> holds (get_arr st i) s = 1 ->
  (s < length (stos st))%nat /\ freed (get_sto st s) = false.
Proof.
  intros HI Hi Hh. pose proof (refs_ge_nth (arrs st) i s Hi) as Hge. unfold get_arr in Hh. rewrite Hh in Hge.
  destruct (Nat.lt_ge_cases s (length (stos st))) as [Hs|Hs].
  - split; [exact Hs|]. destruct (inv_sto st HI s Hs) as [_ H2]. unfold get_sto; fold dsto.
    destruct (freed (nth s (stos st) dsto)) eqn:E; [exfalso; specialize (H2 eq_refl); lia|reflexivity].
  - pose proof (inv_rng st HI s Hs). lia.
Qed.

(* ---------- primitive transitions ---------- *)
(* writing values never touches counts *)
Lemma write_inv st a vs : Inv st -> Inv (write_cells st a vs).
Proof.
  intros [H1 H2 H3 H4]. unfold write_cells. destruct (plc a) as [|s|k]; [constructor; assumption| |constructor; simpl; assumption].
  destruct (Nat.lt_ge_cases s (length (stos st))) as [Hs|Hs].
  - constructor; simpl; try assumption.
    + rewrite length_set_nth. intros t Ht. destruct (Nat.eq_dec t s) as [->|Hne].
      * rewrite nth_set_nth_same by exact Hs. simpl. unfold get_sto; fold dsto. apply H1. exact Hs.
      * rewrite nth_set_nth_other by exact Hne. apply H1. exact Ht.
    + rewrite length_set_nth. exact H2.
    + rewrite unfreed_set_nth by exact Hs. simpl. unfold get_sto; fold dsto. destruct (freed (nth s (stos st) dsto)); lia.
  - rewrite set_nth_overflow by exact Hs. constructor; assumption.
Qed.
Lemma temp_inv st : Inv st -> Inv (temp_cycle st).
Proof.
  intros [H1 H2 H3 H4]. constructor; simpl; try assumption.
  - rewrite app_length. simpl. intros s Hs. destruct (Nat.lt_ge_cases s (length (stos st))) as [Hlt|Hge].
    + rewrite app_nth1 by exact Hlt. apply H1. exact Hlt.
    + assert (s = length (stos st)) as -> by lia. rewrite app_nth2, Nat.sub_diag by lia. simpl. split; [discriminate|].
      intros _. apply H2. lia.
  - rewrite app_length. simpl. intros s Hs. apply H2. lia.
  - rewrite unfreed_app. simpl. lia.
Qed.

(* replace slot i, currently non-holding, by another non-holding record *)
Lemma put_nonholding st i a' : Inv st -> (i < length (arrs st))%nat -> nonholding (get_arr st i) -> nonholding a' -> Inv (put_arr st i a').
Proof.
  intros [H1 H2 H3 H4] Hi Hn Hn'. constructor; simpl; try assumption.
  - intros s Hs. rewrite refs_set_nth by exact Hi. unfold get_arr in Hn. rewrite (Hn s), (Hn' s), Z.sub_0_r, Z.add_0_r. apply H1. exact Hs.
  - intros s Hs. rewrite refs_set_nth by exact Hi. unfold get_arr in Hn. rewrite (Hn s), (Hn' s), Z.sub_0_r, Z.add_0_r. apply H2. exact Hs.
Qed.

(* the object in slot i lets go of whatever it holds and becomes a non-holding record *)
Lemma release_put st i a' : Inv st -> (i < length (arrs st))%nat -> nonholding a' -> Inv (put_arr (release st i) i a').
Proof.
  intros HI Hi Hn'. unfold release.
  destruct (plc (get_arr st i)) as [|s|k] eqn:Ep; try (apply put_nonholding; auto; intro t; unfold holds; rewrite Ep; rewrite andb_false_r; reflexivity).
  destruct (live (get_arr st i)) eqn:El; [|simpl; apply put_nonholding; auto; apply nonholding_notlive; exact El].
  destruct (owns (get_arr st i)) eqn:Eo; [|simpl; apply put_nonholding; auto; apply nonholding_notowns; exact Eo].
  simpl.
  assert (holds (get_arr st i) s = 1) as Hh by (unfold holds; rewrite El, Eo, Ep, Nat.eqb_refl; reflexivity).
  assert (forall t, t <> s -> holds (get_arr st i) t = 0) as Hother.
  { intros t Ht. unfold holds. rewrite El, Eo, Ep. destruct (Nat.eqb_spec s t); [congruence|reflexivity]. }
  destruct (holder_unfreed st i s HI Hi Hh) as [Hs Hf]. destruct HI as [H1 H2 H3 H4].
  unfold remove_link. rewrite Hf. destruct (H1 s Hs) as [Ha _]. unfold get_sto in *; fold dsto in *. specialize (Ha Hf). destruct Ha as [Hl Hge].
  destruct (Z.eqb_spec (links (nth s (stos st) dsto) - 1) 0) as [Hz|Hnz]; constructor; simpl; try assumption.
  - rewrite length_set_nth. intros t Ht. rewrite refs_set_nth by exact Hi. destruct (Nat.eq_dec t s) as [->|Hne].
    + rewrite nth_set_nth_same by exact Hs. simpl. split; [discriminate|]. intros _. unfold get_arr in Hh. rewrite Hh, (Hn' s). lia.
    + rewrite nth_set_nth_other by exact Hne. unfold get_arr in Hother. rewrite (Hother t Hne), (Hn' t), Z.sub_0_r, Z.add_0_r. apply H1. exact Ht.
  - rewrite length_set_nth. intros t Ht. rewrite refs_set_nth by exact Hi. unfold get_arr in Hother.
    rewrite (Hother t ltac:(lia)), (Hn' t), Z.sub_0_r, Z.add_0_r. apply H2. exact Ht.
  - rewrite unfreed_set_nth by exact Hs. simpl. rewrite Hf. lia.
  - rewrite length_set_nth. intros t Ht. rewrite refs_set_nth by exact Hi. destruct (Nat.eq_dec t s) as [->|Hne].
    + rewrite nth_set_nth_same by exact Hs. simpl. split; [|discriminate]. intros _. unfold get_arr in Hh. rewrite Hh, (Hn' s). lia.
    + rewrite nth_set_nth_other by exact Hne. unfold get_arr in Hother. rewrite (Hother t Hne), (Hn' t), Z.sub_0_r, Z.add_0_r. apply H1. exact Ht.
  - rewrite length_set_nth. intros t Ht. rewrite refs_set_nth by exact Hi. unfold get_arr in Hother.
    rewrite (Hother t ltac:(lia)), (Hn' t), Z.sub_0_r, Z.add_0_r. apply H2. exact Ht.
  - rewrite unfreed_set_nth by exact Hs. simpl. rewrite Hf. lia.
Qed.

(* a non-holding slot acquires a link to an unfreed storage *)
Lemma acquire st i s o l : Inv st -> (i < length (arrs st))%nat -> nonholding (get_arr st i) ->
  (s < length (stos st))%nat -> freed (get_sto st s) = false ->
  Inv (put_arr (add_link st s) i (mkArr true true (PSto s) o l)).
Proof.
  intros [H1 H2 H3 H4] Hi Hn Hs Hf. unfold add_link. rewrite Hf. unfold get_sto in *; fold dsto in *.
  destruct (H1 s Hs) as [Ha _]. specialize (Ha Hf). destruct Ha as [Hl Hge]. unfold get_arr in Hn.
  constructor; simpl; try assumption.
  - rewrite length_set_nth. intros t Ht. rewrite refs_set_nth by exact Hi. rewrite (Hn t), holds_owner.
    destruct (Nat.eq_dec t s) as [->|Hne].
    + rewrite nth_set_nth_same by exact Hs. simpl. rewrite Nat.eqb_refl. split; [intros _; lia|congruence].
    + rewrite nth_set_nth_other by exact Hne. destruct (Nat.eqb_spec s t); [congruence|]. rewrite Z.sub_0_r, Z.add_0_r. apply H1. exact Ht.
  - rewrite length_set_nth. intros t Ht. rewrite refs_set_nth by exact Hi. rewrite (Hn t), holds_owner.
    destruct (Nat.eqb_spec s t); [lia|]. rewrite Z.sub_0_r, Z.add_0_r. apply H2. exact Ht.
  - rewrite unfreed_set_nth by exact Hs. simpl. rewrite Hf. lia.
Qed.

(* a non-holding slot becomes the sole owner of a fresh storage *)
Lemma fresh st i n v o l : Inv st -> (i < length (arrs st))%nat -> nonholding (get_arr st i) ->
  Inv (put_arr (fst (new_sto st n v)) i (mkArr true true (PSto (length (stos st))) o l)).
Proof.
  intros [H1 H2 H3 H4] Hi Hn. unfold new_sto. simpl. unfold get_arr in Hn. constructor; simpl; try assumption.
  - rewrite app_length. simpl. intros t Ht. rewrite refs_set_nth by exact Hi. rewrite (Hn t), holds_owner.
    destruct (Nat.lt_ge_cases t (length (stos st))) as [Hlt|Hge].
    + rewrite app_nth1 by exact Hlt. destruct (Nat.eqb_spec (length (stos st)) t); [lia|]. rewrite Z.sub_0_r, Z.add_0_r. apply H1. exact Hlt.
    + assert (t = length (stos st)) as -> by lia. rewrite app_nth2, Nat.sub_diag, Nat.eqb_refl by lia. simpl.
      rewrite (H2 (length (stos st)) ltac:(lia)). split; [intros _; lia|discriminate].
  - rewrite app_length. simpl. intros t Ht. rewrite refs_set_nth by exact Hi. rewrite (Hn t), holds_owner.
    destruct (Nat.eqb_spec (length (stos st)) t); [lia|]. rewrite Z.sub_0_r, Z.add_0_r. apply H2. lia.
  - rewrite unfreed_app. simpl. lia.
Qed.

(* ---------- commutation: the slot written last wins; link counting does not look at the slots ---------- *)
Lemma put_put st i x y : put_arr (put_arr st i x) i y = put_arr st i y.
Proof. unfold put_arr. simpl. f_equal. revert i. induction (arrs st) as [|h t IH]; intros [|i]; simpl; auto. f_equal. apply IH. Qed.
Lemma add_link_put st i x s : add_link (put_arr st i x) s = put_arr (add_link st s) i x.
Proof. reflexivity. Qed.
Lemma new_sto_put st i x n v : new_sto (put_arr st i x) n v = (put_arr (fst (new_sto st n v)) i x, snd (new_sto st n v)).
Proof. reflexivity. Qed.
Lemma get_put_same st i x : (i < length (arrs st))%nat -> get_arr (put_arr st i x) i = x.
Proof. intros H. unfold get_arr, put_arr. simpl. apply nth_set_nth_same. exact H. Qed.
Lemma get_put_other st i j x : j <> i -> get_arr (put_arr st i x) j = get_arr st j.
Proof. intros H. unfold get_arr, put_arr. simpl. apply nth_set_nth_other. exact H. Qed.
Lemma arrs_release st i : arrs (release st i) = arrs st.
Proof. unfold release. destruct (plc (get_arr st i)); try reflexivity. destruct (live (get_arr st i) && owns (get_arr st i)); [|reflexivity].
  unfold remove_link. destruct (freed (get_sto st s)); [reflexivity|]. destruct (_ =? 0); reflexivity. Qed.
Lemma length_arrs_put st i x : length (arrs (put_arr st i x)) = length (arrs st).
Proof. unfold put_arr. simpl. apply length_set_nth. Qed.

(* release slot i, then let it hold whatever record [a] (taken from another live slot j, or fresh) describes *)
Definition share_of (a : arr) (o l : nat) : arr := mkArr true (owns a) (plc a) o l.
Lemma holds_share a o l s : live a = true -> holds (share_of a o l) s = holds a s.
Proof. intros H. unfold holds, share_of. simpl. rewrite H. reflexivity. Qed.

Lemma share_into st i j o l : Inv st -> (i < length (arrs st))%nat -> (j < length (arrs st))%nat -> j <> i ->
  live (get_arr st j) = true -> nonholding (get_arr st i) ->
  let a := get_arr st j in
  Inv (put_arr (match plc a with PSto s => if owns a then add_link st s else st | _ => st end) i (share_of a o l)).
Proof.
  intros HI Hi Hj Hne Hl Hn a.
  destruct (plc a) as [|s|k] eqn:Ep; try (apply put_nonholding; auto; intro t; unfold holds, share_of; simpl; rewrite Ep, andb_false_r; reflexivity).
  destruct (owns a) eqn:Eo; [|apply put_nonholding; auto; apply nonholding_notowns; exact Eo].
  assert (holds a s = 1) as Hh by (unfold holds; subst a; rewrite Hl, Eo, Ep, Nat.eqb_refl; reflexivity).
  destruct (holder_unfreed st j s HI Hj Hh) as [Hs Hf].
  unfold share_of. rewrite Eo, Ep. apply acquire; assumption.
Qed.

(* ---------- every operation preserves the invariant ---------- *)
Lemma unused_facts st i : unused st i = true -> (i < length (arrs st))%nat /\ nonholding (get_arr st i).
Proof. unfold unused. intros H. apply andb_true_iff in H. destruct H as [H1 H2]. apply Nat.ltb_lt in H2. apply negb_true_iff in H1.
  split; [exact H2|apply nonholding_notlive; exact H1]. Qed.
Lemma usable_lt st i : usable st i = true -> (i < length (arrs st))%nat.
Proof. unfold usable, get_arr. intros H. destruct (Nat.lt_ge_cases i (length (arrs st))); [assumption|]. rewrite nth_overflow in H by assumption. discriminate. Qed.

Lemma copy_into_inv st i vals : Inv st -> (i < length (arrs st))%nat -> Inv (copy_into st i vals).
Proof.
  intros HI Hi. unfold copy_into. destruct (plc (get_arr st i)) eqn:Ep.
  - destruct (Nat.eqb (length vals) 0); [exact HI|]. unfold new_sto. simpl. apply write_inv.
    apply (fresh st i (length vals) 0 0%nat (length vals) HI Hi). intro t. unfold holds. rewrite Ep, andb_false_r. reflexivity.
  - destruct (Nat.eqb _ _); [apply write_inv|]; exact HI.
  - destruct (Nat.eqb _ _); [apply write_inv|]; exact HI.
Qed.

Theorem step_inv st o : Inv st -> Inv (sstep st o).
Proof.
  intros HI. destruct o as [i n v|i|i j|i j b n|i j|i k|i j|i j|i n v|i k|i j b n|i n|i|i|i k v]; cbn [sstep].
  - (* ANew *) destruct (unused st i && negb (Nat.eqb n 0)) eqn:E; [|exact HI]. apply andb_true_iff in E. destruct E as [E _].
    destruct (unused_facts st i E) as [Hi Hn]. unfold new_sto. apply (fresh st i n v 0%nat n HI Hi Hn).
  - (* AEmpty *) destruct (unused st i) eqn:E; [|exact HI]. destruct (unused_facts st i E) as [Hi Hn].
    apply put_nonholding; auto using nonholding_empty.
  - (* ACopy *) destruct (unused st i && usable st j) eqn:E; [|exact HI]. apply andb_true_iff in E. destruct E as [E1 E2].
    destruct (unused_facts st i E1) as [Hi Hn]. pose proof (usable_lt st j E2) as Hj.
    assert (j <> i) by (intro; subst; unfold unused, usable in *; rewrite E2 in E1; discriminate).
    exact (share_into st i j (off (get_arr st j)) (len (get_arr st j)) HI Hi Hj H E2 Hn).
  - (* ASlice *) destruct (unused st i && usable st j && Nat.leb (b + n) (len (get_arr st j)) && negb (Nat.eqb n 0)) eqn:E; [|exact HI].
    apply andb_true_iff in E. destruct E as [E E4]. apply andb_true_iff in E. destruct E as [E E3].
    apply andb_true_iff in E. destruct E as [E1 E2].
    destruct (unused_facts st i E1) as [Hi Hn]. pose proof (usable_lt st j E2) as Hj.
    assert (j <> i) as Hji by (intro; subst; unfold unused, usable in *; rewrite E2 in E1; discriminate).
    exact (share_into st i j (off (get_arr st j) + b)%nat n HI Hi Hj Hji E2 Hn).
  - (* ASoft *) destruct (unused st i && usable st j) eqn:E; [|exact HI]. apply andb_true_iff in E. destruct E as [E1 E2].
    destruct (unused_facts st i E1) as [Hi Hn]. apply put_nonholding; auto. apply nonholding_notowns. reflexivity.
  - (* AExt *) destruct (unused st i && Nat.ltb k (length (bufs st))) eqn:E; [|exact HI]. apply andb_true_iff in E. destruct E as [E1 _].
    destruct (unused_facts st i E1) as [Hi Hn]. apply put_nonholding; auto. apply nonholding_notowns. reflexivity.
  - (* ALink *) destruct (usable st i && usable st j && negb (Nat.eqb i j)) eqn:E; [|exact HI].
    apply andb_true_iff in E. destruct E as [E E3]. apply andb_true_iff in E. destruct E as [E1 E2].
    apply negb_true_iff in E3. apply Nat.eqb_neq in E3. pose proof (usable_lt st i E1) as Hi. pose proof (usable_lt st j E2) as Hj.
    destruct (plc (get_arr st j)) eqn:Ep; [exact HI| |].
    + (* the state in which slot i has already let go *)
      set (st0 := put_arr (release st i) i empty_arr).
      assert (Inv st0) as HI0 by (apply release_put; auto using nonholding_empty).
      assert (get_arr st0 j = get_arr st j) as Ej.
      { unfold st0. rewrite get_put_other by lia. unfold get_arr. rewrite arrs_release. reflexivity. }
      assert (length (arrs st0) = length (arrs st)) as EL by (unfold st0; rewrite length_arrs_put, arrs_release; reflexivity).
      assert (nonholding (get_arr st0 i)) as Hn0 by (unfold st0; rewrite get_put_same by (rewrite arrs_release; exact Hi); apply nonholding_empty).
      pose proof (share_into st0 i j (off (get_arr st j)) (len (get_arr st j)) HI0 ltac:(lia) ltac:(lia) ltac:(lia)) as HS.
      cbv zeta in HS. rewrite !Ej in HS. specialize (HS E2 Hn0). unfold share_of in HS. rewrite !Ep in HS.
      destruct (owns (get_arr st j)); unfold st0 in HS; [rewrite add_link_put, put_put in HS|rewrite put_put in HS]; exact HS.
    + apply release_put; auto. intro t. unfold holds. simpl. rewrite andb_false_r. reflexivity.
  - (* AAssign *) destruct (usable st i && usable st j) eqn:E; [|exact HI]. apply andb_true_iff in E. destruct E as [E1 _].
    apply copy_into_inv; [exact HI|apply usable_lt; exact E1].
  - (* AMoveOwn *) destruct (usable st i && negb (Nat.eqb n 0)) eqn:E; [|exact HI]. apply andb_true_iff in E. destruct E as [E1 _].
    pose proof (usable_lt st i E1) as Hi.
    destruct (_ && _) eqn:Esw.
    + set (st0 := put_arr (release st i) i empty_arr).
      assert (Inv st0) as HI0 by (apply release_put; auto using nonholding_empty).
      assert (length (arrs (release st i)) = length (arrs st)) as EL by (rewrite arrs_release; reflexivity).
      pose proof (fresh st0 i n v 0%nat n HI0 ltac:(unfold st0; rewrite length_arrs_put; lia)
                    ltac:(unfold st0; rewrite get_put_same by lia; apply nonholding_empty)) as HF.
      unfold st0 in HF. rewrite new_sto_put in HF. simpl fst in HF. rewrite put_put in HF.
      unfold new_sto in *. simpl in *. exact HF.
    + destruct (_ || _); [apply temp_inv; exact HI|apply temp_inv; apply copy_into_inv; assumption].
  - (* AMoveExt *) destruct (usable st i && Nat.ltb k (length (bufs st))) eqn:E; [|exact HI]. apply andb_true_iff in E. destruct E as [E1 _].
    apply copy_into_inv; [exact HI|apply usable_lt; exact E1].
  - (* AMoveSlice *) destruct (usable st i && usable st j && Nat.leb (b + n) (len (get_arr st j)) && negb (Nat.eqb n 0)) eqn:E; [|exact HI].
    apply andb_true_iff in E. destruct E as [E E4]. apply andb_true_iff in E. destruct E as [E E3].
    apply andb_true_iff in E. destruct E as [E1 E2]. apply copy_into_inv; [exact HI|apply usable_lt; exact E1].
  - (* AResize *) destruct (usable st i) eqn:E; [|exact HI]. pose proof (usable_lt st i E) as Hi.
    destruct (Nat.eqb n 0); [apply release_put; auto using nonholding_empty|].
    set (st0 := put_arr (release st i) i empty_arr).
    assert (Inv st0) as HI0 by (apply release_put; auto using nonholding_empty).
    assert (length (arrs (release st i)) = length (arrs st)) as EL by (rewrite arrs_release; reflexivity).
    pose proof (fresh st0 i n 0 0%nat n HI0 ltac:(unfold st0; rewrite length_arrs_put; lia)
                  ltac:(unfold st0; rewrite get_put_same by lia; apply nonholding_empty)) as HF.
    unfold st0 in HF. rewrite new_sto_put in HF. simpl fst in HF. rewrite put_put in HF. unfold new_sto in *. simpl in *. exact HF.
  - (* AClear *) destruct (usable st i) eqn:E; [|exact HI]. apply release_put; auto using nonholding_empty, usable_lt.
  - (* ADestroy *) destruct (usable st i) eqn:E; [|exact HI]. apply release_put; auto using nonholding_dead, usable_lt.
  - (* AWrite *) destruct (usable st i && Nat.ltb k (len (get_arr st i))); [apply write_inv|]; exact HI.
Qed.

(* ---------- every reachable state ---------- *)
Theorem run_inv nslots buffers ops : Inv (srun nslots buffers ops).
Proof.
  unfold srun. assert (Inv (sinit nslots buffers)) as H0 by apply Inv_init. revert H0. generalize (sinit nslots buffers).
  induction ops as [|o ops IH]; intros st H; cbn [fold_left]; [exact H|]. apply IH. apply step_inv. exact H.
Qed.

(* no leak: when no array object is left, every Storage has been deleted *)
Lemma refs_all_dead l s : (forall i, (i < length l)%nat -> live (nth i l dead_arr) = false) -> refs l s = 0.
Proof. induction l as [|a t IH]; intros H; simpl; [reflexivity|]. rewrite IH by (intros i Hi; apply (H (S i)); simpl; lia).
  specialize (H O ltac:(simpl; lia)). simpl in H. unfold holds. rewrite H. reflexivity. Qed.
Lemma unfreed_zero l : (forall s, (s < length l)%nat -> freed (nth s l dsto) = true) -> unfreed l = 0.
Proof. induction l as [|o t IH]; intros H; simpl; [reflexivity|]. rewrite IH by (intros s Hs; apply (H (S s)); simpl; lia).
  specialize (H O ltac:(simpl; lia)). simpl in H. rewrite H. reflexivity. Qed.
Theorem no_leak st : Inv st -> (forall i, (i < length (arrs st))%nat -> live (get_arr st i) = false) -> created st = deleted st.
Proof.
  intros HI Hdead. pose proof (inv_cnt st HI) as Hc. rewrite unfreed_zero in Hc; [lia|].
  intros s Hs. destruct (inv_sto st HI s Hs) as [Ha _]. destruct (freed (nth s (stos st) dsto)) eqn:E; [reflexivity|].
  destruct (Ha eq_refl) as [Hl Hge]. rewrite (refs_all_dead (arrs st) s Hdead) in Hl. lia.
Qed.

(* no dangling owner: an array that owns a link refers to a Storage that exists and has not been deleted,
   and whose count is at least the number of owners *)
Theorem owner_data_alive st i s : Inv st -> (i < length (arrs st))%nat ->
  live (get_arr st i) = true -> owns (get_arr st i) = true -> plc (get_arr st i) = PSto s ->
  (s < length (stos st))%nat /\ freed (get_sto st s) = false /\ links (get_sto st s) = refs (arrs st) s /\ 1 <= links (get_sto st s).
Proof.
  intros HI Hi Hl Ho Hp. assert (holds (get_arr st i) s = 1) as Hh by (unfold holds; rewrite Hl, Ho, Hp, Nat.eqb_refl; reflexivity).
  destruct (holder_unfreed st i s HI Hi Hh) as [Hs Hf]. split; [exact Hs|]. split; [exact Hf|].
  destruct (inv_sto st HI s Hs) as [Ha _]. unfold get_sto in *; fold dsto in *. apply Ha. exact Hf.
Qed.

(* ---------- assignment never makes the target adopt memory it did not have: after "=", the data of
   the target is where it was, or in a Storage created by this very operation ---------- *)
Definition is_assignment (o : aop) (i : nat) : bool :=
  match o with
  | AAssign i' _ | AMoveOwn i' _ _ | AMoveExt i' _ | AMoveSlice i' _ _ _ => Nat.eqb i i'
  | _ => false
  end.
Lemma get_arr_write st a vs j : get_arr (write_cells st a vs) j = get_arr st j.
Proof. unfold write_cells, get_arr. destruct (plc a); reflexivity. Qed.
Lemma stos_length_write st a vs : length (stos (write_cells st a vs)) = length (stos st).
Proof. unfold write_cells. destruct (plc a); simpl; try reflexivity. apply length_set_nth. Qed.
Definition same_or_fresh (st st' : state) (i : nat) : Prop :=
  plc (get_arr st' i) = plc (get_arr st i) \/ exists s, plc (get_arr st' i) = PSto s /\ (length (stos st) <= s)%nat.
Lemma copy_into_place st i vals : (i < length (arrs st))%nat -> same_or_fresh st (copy_into st i vals) i.
Proof.
  intros Hi. unfold copy_into, same_or_fresh. destruct (plc (get_arr st i)) eqn:Ep.
  - destruct (Nat.eqb (length vals) 0); [left; rewrite Ep; reflexivity|]. right. exists (length (stos st)).
    unfold new_sto. rewrite get_arr_write. rewrite get_put_same by (simpl; exact Hi). simpl. split; [reflexivity|lia].
  - left. destruct (Nat.eqb _ _); [rewrite get_arr_write|]; exact Ep.
  - left. destruct (Nat.eqb _ _); [rewrite get_arr_write|]; exact Ep.
Qed.
Theorem assignment_keeps_or_freshens st o i : is_assignment o i = true -> same_or_fresh st (sstep st o) i.
Proof.
  intros Ha. destruct o; simpl in Ha; try discriminate; apply Nat.eqb_eq in Ha; subst; cbn [sstep].
  - destruct (usable st i0 && usable st j) eqn:E; [|left; reflexivity]. apply andb_true_iff in E. destruct E as [E1 _].
    apply copy_into_place. apply usable_lt. exact E1.
  - destruct (usable st i0 && negb (Nat.eqb n 0)) eqn:E; [|left; reflexivity]. apply andb_true_iff in E. destruct E as [E1 _].
    pose proof (usable_lt st i0 E1) as Hi. destruct (_ && _).
    + right. exists (length (stos (release st i0))). unfold new_sto. rewrite get_put_same by (simpl; rewrite arrs_release; exact Hi).
      simpl. split; [reflexivity|]. unfold release. destruct (plc (get_arr st i0)); try lia. destruct (_ && _); [|lia].
      unfold remove_link. destruct (freed _); [simpl; lia|]. destruct (_ =? 0); simpl; rewrite length_set_nth; lia.
    + destruct (_ || _); [left; reflexivity|]. unfold temp_cycle, get_arr. simpl. apply copy_into_place. exact Hi.
  - destruct (usable st i0 && Nat.ltb k (length (bufs st))) eqn:E; [|left; reflexivity]. apply andb_true_iff in E. destruct E as [E1 _].
    apply copy_into_place. apply usable_lt. exact E1.
  - destruct (_ && _) eqn:E; [|left; reflexivity]. apply andb_true_iff in E. destruct E as [E _]. apply andb_true_iff in E. destruct E as [E _].
    apply andb_true_iff in E. destruct E as [E1 _]. apply copy_into_place. apply usable_lt. exact E1.
Qed.
