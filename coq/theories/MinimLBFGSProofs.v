(* C18: the bounded L-BFGS driver - same guarantees and same proof structure as the conjugate-gradient driver of
   MinimCGProofs.v (it shares the line search); the two-loop recursion and the stored differences do not matter for them:
   whatever direction they produce, only clamped points are evaluated. *)
From Coq Require Import List Bool ZArith Lia.
From Adept Require Import Scalar Minim MinimProofs MinimCG MinimCGProofs MinimLBFGS.
Import ListNotations.
Local Open Scope Z_scope.

Section MinimLBFGSProofs.
Context {T : Type} (O : Ops T).
Variable cost : list T -> T.
Variable grad : list T -> list T.
Variable norm2 : list T -> T.
Variable osqrt : T -> T.
Variable isfinite : T -> bool.
Variable ofz : Z -> T.
Hypothesis le_total : forall a b, oleb O a b = true \/ oleb O b a = true.
Hypothesis lt_le : forall a b, oltb O a b = negb (oleb O b a).
Variables lo hi : list T.
Hypothesis Hbox : box_le O lo hi.
Hypothesis free_ok : forall k ds x dir, inbox O lo hi x -> snd (fst (nearest_bound O k ds x lo hi dir 0 (cbig k, -1, 0))) < 0 ->
  forall ds' ss, inbox O lo hi (point O None x dir ds' ss).
Notation inbox := (inbox O lo hi).
Notation ev_ok := (Forall (fun e : event (T:=T) => inbox (ev_state e))).
Notation le_refl := (le_refl O le_total).

Definition binv (q : lb_state (T:=T)) : Prop :=
  inbox (b_x q) /\ ev_ok (b_log q) /\ 0 <= b_it q /\ (1 <= b_utd q -> b_cost q = cost (b_x q)).
Notation cpost := (cpost O cost lo hi).
Definition bstep_post (s : cgsettings (T:=T)) (it : Z) (r : result (T:=T) + lb_state (T:=T)) : Prop :=
  match r with inl r => cpost s it r | inr q' => binv q' /\ b_it q' = it + 1 /\ b_it q' < g_max_it s end.

Lemma lb_finish_post s st q it0 : inbox (b_x q) -> ev_ok (b_log q) -> b_cost q = cost (b_x q) ->
  it0 <= b_it q -> (it0 < g_max_it s -> b_it q <= g_max_it s) -> cpost s it0 (lb_finish cost s st q).
Proof.
  intros Hx Hl Hc Hi1 Hi2. unfold lb_finish, cg_refresh.
  destruct (b_utd q <? g_ensure s); [destruct (0 <? g_ensure s)|]; unfold MinimCGProofs.cpost; cbn;
    (refine (conj _ (conj Hx (conj (fun _ => _) (conj Hi1 Hi2)))); [try (apply Forall_app; split; [exact Hl|constructor; [exact Hx|constructor]]); exact Hl|first [reflexivity|exact Hc]]).
Qed.
Lemma ev_states_ok' l : Forall inbox l -> ev_ok (ev_states l).
Proof. intros H. unfold ev_states. induction H; cbn; constructor; assumption. Qed.

Lemma lb_after_ls_spec s k q2 bs1 g last_restart inear itype d log1 gn o :
  post cost inbox o -> ev_ok log1 -> 0 <= b_it q2 ->
  bstep_post s (b_it q2) (lb_after_ls O cost s k lo hi q2 bs1 g last_restart inear itype d log1 gn o).
Proof.
  intros (Ho1 & Ho2 & Ho3) Hl1 Hit. unfold lb_after_ls.
  set (reached := match ls_status o with MBoundReached => true | _ => false end).
  set (i := Z.to_nat inear).
  set (xb := if 0 <? itype then nth i hi (o0 O) else nth i lo (o0 O)).
  set (changed := reached && negb (oeqb O (nth i (ls_x o) (o0 O)) xb)).
  set (x3 := if changed then set_nth i xb (ls_x o) else ls_x o).
  assert (Hx3 : inbox x3).
  { unfold x3. destruct changed; [|exact Ho2]. unfold xb. destruct (0 <? itype); [apply (inbox_set_nth_hi O le_total)|apply (inbox_set_nth_lo O le_total)]; assumption. }
  set (bs3 := if reached then set_nth i itype bs1 else bs1).
  pose proof (inbox_snap_all O le_total lo hi k x3 bs3 Hbox Hx3) as Hx4.
  pose proof (snap_all_unchanged O lo hi k x3 bs3) as Hun.
  destruct (snap_all O k lo hi x3 bs3) as [[[x4 bs4] anyhit] anychg]. cbn [fst snd] in Hx4, Hun.
  set (placed := changed || anychg).
  set (cost4 := if placed then cost x4 else ls_cost_fn o).
  assert (Hc4 : cost4 = cost x4).
  { unfold cost4, placed. destruct changed eqn:Ech; cbn [orb]; [reflexivity|]. destruct anychg; [reflexivity|]. rewrite (Hun eq_refl). unfold x3. exact Ho3. }
  set (log2 := log1 ++ ev_states (ls_log o)).
  assert (Hl2 : ev_ok log2) by (apply Forall_app; split; [exact Hl1|apply ev_states_ok'; exact Ho1]).
  set (log3 := if placed then log2 ++ [EvCost x4] else log2).
  assert (Hl3 : ev_ok log3) by (unfold log3; destruct placed; [apply Forall_app; split; [exact Hl2|constructor; [exact Hx4|constructor]]|exact Hl2]).
  set (it' := b_it q2 + 1).
  match goal with |- bstep_post _ _ (match ?st' with MNotYetConverged => inr ?q3 | _ => _ end) => set (q3' := q3); set (stf := st') end.
  assert (Hfin : forall st'', cpost s (b_it q2) (lb_finish cost s st'' q3')).
  { intros st''. apply lb_finish_post; cbn; try assumption; unfold it'; lia. }
  destruct stf eqn:Est'; cbn [bstep_post]; try apply Hfin.
  unfold stf in Est'. match type of Est' with match ?st0 with _ => _ end = _ => destruct st0; try discriminate Est' end. destruct (g_max_it s <=? it') eqn:Emax; try discriminate Est'. apply Z.leb_gt in Emax.
  refine (conj _ (conj eq_refl Emax)). unfold binv; cbn. refine (conj Hx4 (conj Hl3 (conj _ (fun _ => Hc4)))). unfold it'. lia.
Qed.

Lemma lb_search_spec ls k q2 bs1 g cf gn last_restart log1 : inbox (b_x q2) -> cf = cost (b_x q2) -> ev_ok log1 -> 0 <= b_it q2 ->
  bstep_post (lb_cg ls) (b_it q2) (lb_search O cost grad norm2 osqrt isfinite ofz ls k lo hi q2 bs1 g cf gn last_restart log1).
Proof.
  intros Hx Hcf Hl1 Hit. unfold lb_search.
  match goal with |- context [let '(d2, dir) := ?p in _] => destruct p as [d2 dir] end.
  destruct (nearest_bound O k (norm2 dir) (b_x q2) lo hi dir 0 (cbig k, -1, 0)) as [[bstep inear] itype] eqn:Enb.
  apply lb_after_ls_spec; [|exact Hl1|exact Hit].
  destruct (Z.leb_spec 0 inear) as [Ei|Ei].
  - apply (line_search_spec O cost grad norm2 osqrt isfinite le_total lt_le (lb_cg ls) k (Some (lo, hi)) (b_x q2) dir);
      [exact Hx|intros ds' ss; cbn; apply (inbox_clamp O le_total lt_le); exact Hbox|exact Hcf|constructor].
  - apply (line_search_spec O cost grad norm2 osqrt isfinite le_total lt_le (lb_cg ls) k None (b_x q2) dir);
      [exact Hx|intros ds' ss; apply (free_ok k (norm2 dir)); [exact Hx|rewrite Enb; cbn; exact Ei]|exact Hcf|constructor].
Qed.

Lemma lb_step_spec ls k q : binv q -> bstep_post (lb_cg ls) (b_it q) (lb_step O cost grad norm2 osqrt isfinite ofz ls k lo hi q).
Proof.
  intros (Hx & Hl & Hit & Hc). unfold lb_step.
  set (need := b_utd q <? 1).
  set (cf := if need then cost (b_x q) else b_cost q).
  assert (Hcf : cf = cost (b_x q)).
  { unfold cf, need. destruct (Z.ltb_spec (b_utd q) 1) as [_|E]; [reflexivity|apply Hc; exact E]. }
  set (g0 := if need then grad (b_x q) else b_gradient q).
  set (q1 := if need then _ else q).
  assert (H1 : b_x q1 = b_x q /\ ev_ok (b_log q1) /\ b_it q1 = b_it q /\ (need = true -> b_cost q1 = cf)).
  { unfold q1. destruct need; cbn; [|repeat split; try assumption; discriminate].
    repeat split; try reflexivity. apply Forall_app. split; [exact Hl|constructor; [exact Hx|constructor]]. }
  destruct H1 as (H1x & H1l & H1i & H1c).
  destruct (need && negb (isfinite cf)) eqn:Ea.
  { apply andb_true_iff in Ea. destruct Ea as [Ea _]. cbn [bstep_post]. apply lb_finish_post; rewrite ?H1x, ?H1i; try assumption; try lia.
    rewrite (H1c Ea). exact Hcf. }
  destruct (need && any_nonfinite isfinite g0) eqn:Eb.
  { apply andb_true_iff in Eb. destruct Eb as [Eb _]. cbn [bstep_post]. apply lb_finish_post; rewrite ?H1x, ?H1i; try assumption; try lia.
    rewrite (H1c Eb). exact Hcf. }
  set (rel := can_release O (b_bs q1) g0).
  set (bs1 := if rel then release1 O (b_bs q1) g0 else b_bs q1).
  set (g := zero_bound O bs1 g0).
  set (gn := if 0 <? Z.of_nat (length bs1) - count_bound bs1 then norm2 g else o0 O).
  set (log1 := b_log q1 ++ [EvProgress (b_it q1) (b_x q1) cf gn]).
  assert (Hl1 : ev_ok log1) by (apply Forall_app; split; [exact H1l|constructor; [cbn; rewrite H1x; exact Hx|constructor]]).
  destruct (oleb O gn (g_thr (lb_cg ls))).
  { cbn [bstep_post]. apply lb_finish_post; cbn; rewrite ?H1x, ?H1i; try assumption; try lia. }
  match goal with |- bstep_post _ _ (lb_search _ _ _ _ _ _ _ _ _ _ _ ?q2 _ _ _ _ _ _) => set (q2' := q2) end.
  assert (E2 : b_it q2' = b_it q) by (cbn; exact H1i). rewrite <- E2.
  apply lb_search_spec; cbn; rewrite ?H1x, ?H1i; assumption.
Qed.

Lemma lb_loop_spec fuel : forall ls k q, binv q -> cpost (lb_cg ls) (b_it q) (lb_loop O cost grad norm2 osqrt isfinite ofz fuel ls k lo hi q).
Proof.
  induction fuel as [|fuel IH]; intros ls k q Hq.
  - destruct Hq as (Hx & Hl & Hit & Hc). cbn. unfold MinimCGProofs.cpost, lb_result; cbn.
    refine (conj Hl (conj Hx (conj _ (conj (Z.le_refl _) (fun H => Z.lt_le_incl _ _ H))))). intros H; contradiction H; reflexivity.
  - cbn [lb_loop]. pose proof (lb_step_spec ls k q Hq) as Hs.
    destruct (lb_step O cost grad norm2 osqrt isfinite ofz ls k lo hi q) as [r|q']; [exact Hs|].
    destruct Hs as (Hq' & Ei & Em). destruct (IH ls k q' Hq') as (R1 & R2 & R3 & R4 & R5).
    unfold MinimCGProofs.cpost. refine (conj R1 (conj R2 (conj R3 (conj _ _)))); [lia|intros _; apply R5; exact Em].
Qed.

Theorem lbfgs_bounded_spec fuel ls k x m1 inf : valid_bounds O lo hi x = true ->
  let r := lbfgs_bounded O cost grad norm2 osqrt isfinite ofz fuel ls k lo hi x m1 inf in
  ev_ok (r_log r) /\ inbox (r_x r) /\ (r_status r <> MOutOfFuel -> r_cost r = cost (r_x r)) /\ (0 < g_max_it (lb_cg ls) -> 0 <= r_iter r <= g_max_it (lb_cg ls)).
Proof.
  intros Hv r. unfold r, lbfgs_bounded. rewrite Hv. cbn [negb].
  match goal with |- context [lb_loop _ _ _ _ _ _ _ fuel ls k lo hi ?q0] => pose proof (lb_loop_spec fuel ls k q0) as H end.
  cbn [b_it] in H. destruct H as (R1 & R2 & R3 & R4 & R5).
  - unfold binv; cbn. refine (conj (inbox_clamp O le_total lt_le lo hi x Hbox) (conj (Forall_nil _) (conj (Z.le_refl 0) _))). intros E; lia.
  - refine (conj R1 (conj R2 (conj R3 _))). intros Hm. split; [exact R4|apply R5; exact Hm].
Qed.
Theorem lbfgs_bounded_invalid fuel ls k x m1 inf : valid_bounds O lo hi x = false ->
  let r := lbfgs_bounded O cost grad norm2 osqrt isfinite ofz fuel ls k lo hi x m1 inf in r_status r = MInvalidBounds /\ r_log r = [] /\ r_x r = x.
Proof. intros Hv. unfold lbfgs_bounded. rewrite Hv. cbn. repeat split. Qed.

(* ================= unbounded L-BFGS: reported cost and iteration count ================= *)
Definition buinv (q : lb_state (T:=T)) : Prop := 0 <= b_it q /\ (1 <= b_utd q -> b_cost q = cost (b_x q)).
Notation upost := (MinimCGProofs.upost cost).
Definition bustep_post (s : cgsettings (T:=T)) (it : Z) (r : result (T:=T) + lb_state (T:=T)) : Prop :=
  match r with inl r => upost s it r | inr q' => buinv q' /\ b_it q' = it + 1 /\ b_it q' < g_max_it s end.
Lemma lbu_finish_post s st q it0 : b_cost q = cost (b_x q) -> it0 <= b_it q -> (it0 < g_max_it s -> b_it q <= g_max_it s) -> upost s it0 (lb_finish cost s st q).
Proof.
  intros Hc Hi1 Hi2. unfold lb_finish, cg_refresh.
  destruct (b_utd q <? g_ensure s); [destruct (0 <? g_ensure s)|]; unfold MinimCGProofs.upost; cbn; (refine (conj (fun _ => _) (conj Hi1 Hi2)); first [reflexivity|exact Hc]).
Qed.
Lemma lbu_step_spec ls k q : buinv q -> bustep_post (lb_cg ls) (b_it q) (lbu_step O cost grad norm2 osqrt isfinite ofz ls k q).
Proof.
  intros (Hit & Hc). unfold lbu_step.
  set (need := b_utd q <? 1).
  set (cf := if need then cost (b_x q) else b_cost q).
  assert (Hcf : cf = cost (b_x q)).
  { unfold cf, need. destruct (Z.ltb_spec (b_utd q) 1) as [_|E]; [reflexivity|apply Hc; exact E]. }
  set (g := if need then grad (b_x q) else b_gradient q).
  set (q1 := if need then _ else q).
  assert (H1 : b_x q1 = b_x q /\ b_it q1 = b_it q /\ (need = true -> b_cost q1 = cf)).
  { unfold q1. destruct need; cbn; repeat split; try reflexivity; discriminate. }
  destruct H1 as (H1x & H1i & H1c).
  assert (Hq1c : b_cost q1 = cost (b_x q1)).
  { rewrite H1x. destruct need eqn:En; [rewrite (H1c eq_refl); exact Hcf|]. unfold q1. unfold cf in Hcf. exact Hcf. }
  destruct (negb (isfinite cf)); [cbn [bustep_post]; apply lbu_finish_post; [exact Hq1c|lia|lia]|].
  destruct (any_nonfinite isfinite g); [cbn [bustep_post]; apply lbu_finish_post; [exact Hq1c|lia|lia]|].
  destruct (oleb O (norm2 g) (g_thr (lb_cg ls))); [cbn [bustep_post]; apply lbu_finish_post; cbn; [rewrite H1x; exact Hcf|lia|lia]|].
  cbn [b_x b_it b_step b_utd b_samples b_prev_x b_prev_g b_data b_start].
  match goal with |- context [let '(d2, dir) := ?p in _] => destruct p as [d2 dir] end.
  match goal with |- context [line_search O cost grad norm2 osqrt isfinite (lb_cg ls) k None (b_x q1) dir ?st ?cv ?bs cf g ?u ?sm []] =>
    set (o := line_search O cost grad norm2 osqrt isfinite (lb_cg ls) k None (b_x q1) dir st cv bs cf g u sm []);
    assert (Ho : post cost (fun _ : list T => True) o) by
      (apply (line_search_spec O cost grad norm2 osqrt isfinite le_total lt_le (lb_cg ls) k None (b_x q1) dir st cv bs cf (fun _ => True)); [exact I|intros; exact I|rewrite H1x; exact Hcf|constructor]) end.
  destruct Ho as (_ & _ & Ho3).
  set (it' := b_it q1 + 1).
  match goal with |- bustep_post _ _ (match ?st' with MNotYetConverged => inr ?q3 | _ => _ end) => set (q3' := q3); set (stf := st') end.
  assert (Hfin : forall st'', upost (lb_cg ls) (b_it q) (lb_finish cost (lb_cg ls) st'' q3')).
  { intros st''. apply lbu_finish_post; cbn; [exact Ho3|unfold it'; lia|unfold it'; lia]. }
  destruct stf eqn:Est'; cbn [bustep_post]; try apply Hfin.
  unfold stf in Est'. match type of Est' with match ?st0 with _ => _ end = _ => destruct st0; try discriminate Est' end.
  destruct (g_max_it (lb_cg ls) <=? it') eqn:Emax; try discriminate Est'. apply Z.leb_gt in Emax.
  refine (conj _ (conj _ _)); [unfold buinv; cbn; split; [unfold it'; lia|intros _; exact Ho3]|cbn; unfold it'; lia|cbn; exact Emax].
Qed.
Theorem lbfgs_unbounded_spec fuel ls k x m1 inf :
  let r := lbfgs_unbounded O cost grad norm2 osqrt isfinite ofz fuel ls k x m1 inf in
  (r_status r <> MOutOfFuel -> r_cost r = cost (r_x r)) /\ (0 < g_max_it (lb_cg ls) -> 0 <= r_iter r <= g_max_it (lb_cg ls)).
Proof.
  intros r. unfold r, lbfgs_unbounded.
  match goal with |- context [lbu_loop _ _ _ _ _ _ _ fuel ls k ?q0] => set (q00 := q0) end.
  assert (H : forall fuel' q, buinv q -> upost (lb_cg ls) (b_it q) (lbu_loop O cost grad norm2 osqrt isfinite ofz fuel' ls k q)).
  { intros fuel'. induction fuel' as [|fuel' IH]; intros q Hq.
    - destruct Hq as (Hit & Hc). cbn. unfold MinimCGProofs.upost, lb_result; cbn. refine (conj _ (conj (Z.le_refl _) (fun H => Z.lt_le_incl _ _ H))). intros H; contradiction H; reflexivity.
    - cbn [lbu_loop]. pose proof (lbu_step_spec ls k q Hq) as Hs.
      destruct (lbu_step O cost grad norm2 osqrt isfinite ofz ls k q) as [r1|q']; [exact Hs|].
      destruct Hs as (Hq' & Ei & Em). destruct (IH q' Hq') as (R3 & R4 & R5).
      unfold MinimCGProofs.upost. refine (conj R3 (conj _ _)); [lia|intros _; apply R5; exact Em]. }
  destruct (H fuel q00) as (R3 & R4 & R5); [unfold buinv, q00; cbn; split; [lia|intros E; lia]|].
  cbn [b_it q00] in R4, R5. split; [exact R3|intros Hm; split; [exact R4|apply R5; exact Hm]].
Qed.
End MinimLBFGSProofs.
