(* Interpolation routines of include/adept/interp.h: option decoding, 1-D interp (bisection bracket for
   increasing and decreasing coordinates, the three extrapolation policies, nearest-neighbour rule,
   single-knot case, trailing dimensions as rows), interp_get_indices_weights and the bilinear /
   trilinear combinations of interp2d / interp3d.  Generic in the scalar type (record Ops). *)
From Coq Require Import List Arith Bool ZArith.
From Adept Require Import Scalar.
Import ListNotations.

(* ---- options (interp.h:27-66) ---- *)
Inductive scheme := Linear | Nearest.
Inductive policy := PLinear | PClamp | PConstant.
Inductive outcome (A : Type) := Ok (a : A) | ArrayException | SizeMismatch.
Arguments Ok {A}. Arguments ArrayException {A}. Arguments SizeMismatch {A}.

(* options word: low four bits = extrapolation policy, the rest = interpolation scheme *)
Definition decode (options : N) : outcome (scheme * policy) :=
  let interp := N.shiftr options 4 in
  let extrap := N.land options 15 in
  if negb ((interp =? 0)%N || (interp =? 1)%N) then ArrayException
  else if (3 <? extrap)%N then ArrayException
  else if (interp =? 1)%N && (extrap =? 1)%N then ArrayException
  else
    let s := if (interp =? 0)%N then Linear else Nearest in
    let p := if (extrap =? 0)%N then (match s with Linear => PLinear | Nearest => PClamp end)
             else if (extrap =? 1)%N then PLinear else if (extrap =? 2)%N then PClamp else PConstant in
    Ok (s, p).

Section Interp.
Context {T : Type} (Op : Ops T).
Notation "a + b" := (oadd Op a b). Notation "a - b" := (osub Op a b).
Notation "a * b" := (omul Op a b). Notation "a / b" := (odiv Op a b).
Definition xs (x : list T) (j : nat) : T := nth j x (o0 Op).
Definition row := list T.
Definition ys (y : list row) (j : nat) : row := nth j y [].

(* "while (jmax > jmin+1) { jmid = jmin + (jmax-jmin)/2; if (xii > x(jmid)) jmin = jmid; else jmax = jmid; }"
   [up] = true for increasing coordinates (test xii > x(jmid)), false for decreasing (xii < x(jmid)) *)
Fixpoint bisect (fuel : nat) (up : bool) (x : list T) (q : T) (jmin jmax : nat) : nat * nat :=
  match fuel with
  | O => (jmin, jmax)
  | S f =>
      if Nat.ltb (S jmin) jmax then
        let jmid := (jmin + (jmax - jmin) / 2)%nat in
        let go_right := if up then oltb Op (xs x jmid) q else oltb Op q (xs x jmid) in
        if go_right then bisect f up x q jmid jmax else bisect f up x q jmin jmid
      else (jmin, jmax)
  end.

(* ((xii-x(jmin))*y[jmax] + (x(jmax)-xii)*y[jmin]) / (x(jmax)-x(jmin)), element by element over a row *)
(* [recip]: when the data have trailing dimensions, y[j] is an array and "array expression / scalar" is
   evaluated by Adept as multiplication by the reciprocal (BinaryOperation.h:1340-1353); for a vector of data
   y[j] is a plain number and the division is a division *)
Definition lin_row (recip : bool) (x : list T) (y : list row) (q : T) (jmin jmax : nat) : row :=
  map (fun ab => let num := (q - xs x jmin) * snd ab + (xs x jmax - q) * fst ab in
                 let den := xs x jmax - xs x jmin in
                 if recip then num * (o1 Op / den) else num / den)
      (combine (ys y jmin) (ys y jmax)).
Definition const_row (y : list row) (c : T) : row := map (fun _ => c) (ys y 0).

(* one query of interp() (interp.h:216-360, after the end-knot fix) *)
Definition interp1_query (recip : bool) (s : scheme) (p : policy) (x : list T) (y : list row) (c : T) (q : T) : row :=
  let n := length x in
  let up := oltb Op (xs x 0) (xs x 1) in
  let last := (n - 1)%nat in
  (* "xii <= x(0)" for increasing, "xii >= x(0)" for decreasing; likewise at the far end *)
  let before := if up then oleb Op q (xs x 0) else oleb Op (xs x 0) q in
  let after := if up then oleb Op (xs x last) q else oleb Op q (xs x last) in
  let finish (jmin jmax : nat) : row :=
    match s with
    | Linear => lin_row recip x y q jmin jmax
    | Nearest =>
        let further := if up then oltb Op (xs x jmax - q) (q - xs x jmin) else oltb Op (q - xs x jmin) (xs x jmax - q) in
        if further then ys y jmax else ys y jmin
    end in
  if before then
    match p with
    | PLinear => finish 0%nat 1%nat
    | PClamp => ys y 0
    | PConstant => if oeqb Op q (xs x 0) then ys y 0 else const_row y c
    end
  else if after then
    match p with
    | PLinear => finish (last - 1)%nat last
    | PClamp => ys y last
    | PConstant => if oeqb Op q (xs x last) then ys y last else const_row y c
    end
  else let '(jmin, jmax) := bisect n up x q 0%nat last in finish jmin jmax.

(* interp(x, y, xi, options, extrap_value) *)
Definition interp1 (recip : bool) (options : N) (x : list T) (y : list row) (c : T) (xi : list T) : outcome (list row) :=
  if negb (Nat.eqb (length x) (length y)) then SizeMismatch
  else if Nat.eqb (length x) 0 then SizeMismatch
  else if Nat.eqb (length x) 1 then Ok (map (fun _ => ys y 0) xi)
  else match decode options with
       | Ok (s, p) => Ok (map (interp1_query recip s p x y c) xi)
       | ArrayException => ArrayException
       | SizeMismatch => SizeMismatch
       end.

(* ---- interp_get_indices_weights (interp.h:84-176): index of the first of the two knots, weight of
   that knot, validity ---- *)
Fixpoint search_up (fuel : nat) (x : list T) (q : T) (jj : nat) : nat :=   (* while (jj < n-2 && x(jj+1) < xii) ++jj *)
  match fuel with
  | O => jj
  | S f => if Nat.ltb jj (length x - 2) && oltb Op (xs x (S jj)) q then search_up f x q (S jj) else jj
  end.
Fixpoint search_down (fuel : nat) (x : list T) (q : T) (jj : nat) : nat := (* while (jj > 0 && x(jj) < xii) --jj *)
  match fuel with
  | O => jj
  | S f => if Nat.ltb 0 jj && oltb Op (xs x jj) q then search_down f x q (Nat.pred jj) else jj
  end.
(* C round(): half away from zero; weights lie in [0,1] only for in-range and clamped queries, where it is
   "1 if w >= 1/2 else 0"; kept abstract through [round_w] for linear extrapolation with NEAREST (rejected) *)
Definition half : T := o1 Op / (o1 Op + o1 Op).
Definition round01 (w : T) : T := if oleb Op half w then o1 Op else o0 Op.

Definition index_weight (s : scheme) (p : policy) (x : list T) (q : T) : nat * T * bool :=
  let n := length x in
  let last := (n - 1)%nat in
  let w (jj : nat) := (xs x (S jj) - q) / (xs x (S jj) - xs x jj) in
  let fin (r : nat * T * bool) := match s, r with Nearest, (j, wt, v) => (j, round01 wt, v) | Linear, _ => r end in
  if oltb Op (xs x 0) (xs x 1) then
    if oleb Op (xs x 0) q && oleb Op q (xs x last) then
      let jj := search_up n x q 0%nat in fin (jj, w jj, true)
    else if oltb Op q (xs x 0) then
      match p with PLinear => fin (0%nat, w 0%nat, true) | PClamp => fin (0%nat, o1 Op, true) | PConstant => (0%nat, o0 Op, false) end
    else
      match p with PLinear => fin ((n - 2)%nat, w (n - 2)%nat, true) | PClamp => fin ((n - 2)%nat, o0 Op, true) | PConstant => ((n - 2)%nat, o0 Op, false) end
  else
    if oleb Op q (xs x 0) && oleb Op (xs x last) q then
      let jj := search_down n x q (n - 2)%nat in fin (jj, w jj, true)
    else if oltb Op (xs x 0) q then
      match p with PLinear => fin (0%nat, w 0%nat, true) | PClamp => fin (0%nat, o1 Op, true) | PConstant => (0%nat, o0 Op, false) end
    else
      match p with PLinear => fin ((n - 2)%nat, w (n - 2)%nat, true) | PClamp => fin ((n - 2)%nat, o0 Op, true) | PConstant => ((n - 2)%nat, o0 Op, false) end.

(* interp2d: M is a list (over x) of lists (over y) of rows (trailing dimensions) *)
Definition one_minus (w : T) : T := o1 Op - w.
Definition row_scale (a : T) (r : row) : row := map (fun v => a * v) r.
Definition row_add (r1 r2 : row) : row := map (fun ab => fst ab + snd ab) (combine r1 r2).
Definition m2 (M : list (list row)) (i j : nat) : row := nth j (nth i M []) [].
Definition interp2d_query (s : scheme) (p : policy) (x y : list T) (M : list (list row)) (c : T) (qx qy : T) : row :=
  let '(ix, wx, vx) := index_weight s p x qx in
  let '(iy, wy, vy) := index_weight s p y qy in
  if vx && vy then
    row_add (row_scale wy (row_add (row_scale wx (m2 M ix iy)) (row_scale (one_minus wx) (m2 M (S ix) iy))))
            (row_scale (one_minus wy) (row_add (row_scale wx (m2 M ix (S iy))) (row_scale (one_minus wx) (m2 M (S ix) (S iy)))))
  else map (fun _ => c) (m2 M 0 0).
Definition interp2d (options : N) (x y : list T) (M : list (list row)) (c : T) (xi yi : list T) : outcome (list row) :=
  if negb (Nat.eqb (length x) (length M)) then SizeMismatch
  else if negb (Nat.eqb (length y) (length (nth 0 M []))) then SizeMismatch
  else if Nat.ltb (length x) 2 || Nat.ltb (length y) 2 then SizeMismatch
  else if negb (Nat.eqb (length xi) (length yi)) then SizeMismatch
  else match decode options with
       | Ok (s, p) => Ok (map (fun qq => interp2d_query s p x y M c (fst qq) (snd qq)) (combine xi yi))
       | ArrayException => ArrayException
       | SizeMismatch => SizeMismatch
       end.

(* interp3d *)
Definition m3 (M : list (list (list row))) (i j k : nat) : row := nth k (nth j (nth i M []) []) [].
Definition interp3d_query (s : scheme) (p : policy) (x y z : list T) (M : list (list (list row))) (c : T) (qx qy qz : T) : row :=
  let '(ix, wx, vx) := index_weight s p x qx in
  let '(iy, wy, vy) := index_weight s p y qy in
  let '(iz, wz, vz) := index_weight s p z qz in
  let plane (i : nat) :=
    row_add (row_scale wy (row_add (row_scale wz (m3 M i iy iz)) (row_scale (one_minus wz) (m3 M i iy (S iz)))))
            (row_scale (one_minus wy) (row_add (row_scale wz (m3 M i (S iy) iz)) (row_scale (one_minus wz) (m3 M i (S iy) (S iz))))) in
  if vx && vy && vz then row_add (row_scale wx (plane ix)) (row_scale (one_minus wx) (plane (S ix)))
  else map (fun _ => c) (m3 M 0 0 0).
Definition interp3d (options : N) (x y z : list T) (M : list (list (list row))) (c : T) (xi yi zi : list T) : outcome (list row) :=
  if negb (Nat.eqb (length x) (length M)) then SizeMismatch
  else if negb (Nat.eqb (length y) (length (nth 0 M []))) then SizeMismatch
  else if negb (Nat.eqb (length z) (length (nth 0 (nth 0 M []) []))) then SizeMismatch
  else if Nat.ltb (length x) 2 || Nat.ltb (length y) 2 || Nat.ltb (length z) 2 then SizeMismatch
  else if negb (Nat.eqb (length xi) (length yi)) || negb (Nat.eqb (length xi) (length zi)) then SizeMismatch
  else match decode options with
       | Ok (s, p) => Ok (map (fun qqq => interp3d_query s p x y z M c (fst (fst qqq)) (snd (fst qqq)) (snd qqq)) (combine (combine xi yi) zi))
       | ArrayException => ArrayException
       | SizeMismatch => SizeMismatch
       end.
End Interp.
