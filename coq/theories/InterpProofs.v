(* C20: the interpolation model over the real numbers.  Comparisons of the Ops record are decided with
   Rlt_dec / Rle_dec / Req_EM_T (standard-library classical reals). *)
From Coq Require Import List Arith Bool Reals Lra Lia.
From Adept Require Import Scalar Interp.
Import ListNotations.
Local Open Scope R_scope.

Definition Rltb (a b : R) : bool := if Rlt_dec a b then true else false.
Definition Rleb (a b : R) : bool := if Rle_dec a b then true else false.
Definition Reqb (a b : R) : bool := if Req_EM_T a b then true else false.
Definition ROps : Ops R := mkOps R 0 1 Rplus Rminus Rmult Rdiv Ropp Reqb Rltb Rleb.
Lemma Rltb_spec a b : reflect (a < b) (Rltb a b).
Proof. unfold Rltb. destruct (Rlt_dec a b); constructor; assumption. Qed.
Lemma Rleb_spec a b : reflect (a <= b) (Rleb a b).
Proof. unfold Rleb. destruct (Rle_dec a b); constructor; assumption. Qed.
Lemma Reqb_spec a b : reflect (a = b) (Reqb a b).
Proof. unfold Reqb. destruct (Req_EM_T a b); constructor; assumption. Qed.

Notation X x j := (xs ROps x j).
Definition increasing (x : list R) : Prop := forall i j, (i < j < length x)%nat -> X x i < X x j.
Definition decreasing (x : list R) : Prop := forall i j, (i < j < length x)%nat -> X x j < X x i.

(* ---------- the bisection finds the bracketing pair of consecutive knots ---------- *)
Lemma mid_between a b : (S a < b)%nat -> (a < a + (b - a) / 2 < b)%nat.
Proof. intros H. pose proof (Nat.div_mod (b - a) 2 ltac:(lia)). pose proof (Nat.mod_upper_bound (b - a) 2 ltac:(lia)).
  assert (1 <= (b - a) / 2)%nat by (apply Nat.div_le_lower_bound; lia). lia. Qed.

Theorem bisect_up x q : increasing x -> forall fuel jmin jmax,
  (jmin < jmax < length x)%nat -> (jmax - jmin <= fuel)%nat -> X x jmin < q <= X x jmax ->
  let '(a, b) := bisect ROps fuel true x q jmin jmax in
  b = S a /\ (jmin <= a)%nat /\ (b <= jmax)%nat /\ X x a < q <= X x b.
Proof.
  intros Hinc. induction fuel as [|f IH]; intros jmin jmax Hj Hf Hq; [lia|].
  cbn [bisect]. destruct (Nat.ltb_spec (S jmin) jmax) as [Hgap|Hgap].
  - pose proof (mid_between jmin jmax Hgap) as Hmid.
    change (oltb ROps (xs ROps x (jmin + (jmax - jmin) / 2)) q) with (Rltb (X x (jmin + (jmax - jmin) / 2)) q).
    destruct (Rltb_spec (X x (jmin + (jmax - jmin) / 2)) q) as [Hlt|Hge].
    + specialize (IH (jmin + (jmax - jmin) / 2)%nat jmax ltac:(lia) ltac:(lia) ltac:(lra)).
      destruct (bisect ROps f true x q (jmin + (jmax - jmin) / 2) jmax) as [a b]. destruct IH as (? & ? & ? & ?). repeat split; try lia; lra.
    + specialize (IH jmin (jmin + (jmax - jmin) / 2)%nat ltac:(lia) ltac:(lia) ltac:(lra)).
      destruct (bisect ROps f true x q jmin (jmin + (jmax - jmin) / 2)) as [a b]. destruct IH as (? & ? & ? & ?). repeat split; try lia; lra.
  - assert (jmax = S jmin) by lia. subst. repeat split; try lia; lra.
Qed.

Theorem bisect_down x q : decreasing x -> forall fuel jmin jmax,
  (jmin < jmax < length x)%nat -> (jmax - jmin <= fuel)%nat -> X x jmax <= q < X x jmin ->
  let '(a, b) := bisect ROps fuel false x q jmin jmax in
  b = S a /\ (jmin <= a)%nat /\ (b <= jmax)%nat /\ X x b <= q < X x a.
Proof.
  intros Hdec. induction fuel as [|f IH]; intros jmin jmax Hj Hf Hq; [lia|].
  cbn [bisect]. destruct (Nat.ltb_spec (S jmin) jmax) as [Hgap|Hgap].
  - pose proof (mid_between jmin jmax Hgap) as Hmid.
    change (oltb ROps q (xs ROps x (jmin + (jmax - jmin) / 2))) with (Rltb q (X x (jmin + (jmax - jmin) / 2))).
    destruct (Rltb_spec q (X x (jmin + (jmax - jmin) / 2))) as [Hlt|Hge].
    + specialize (IH (jmin + (jmax - jmin) / 2)%nat jmax ltac:(lia) ltac:(lia) ltac:(lra)).
      destruct (bisect ROps f false x q (jmin + (jmax - jmin) / 2) jmax) as [a b]. destruct IH as (? & ? & ? & ?). repeat split; try lia; lra.
    + specialize (IH jmin (jmin + (jmax - jmin) / 2)%nat ltac:(lia) ltac:(lia) ltac:(lra)).
      destruct (bisect ROps f false x q jmin (jmin + (jmax - jmin) / 2)) as [a b]. destruct IH as (? & ? & ? & ?). repeat split; try lia; lra.
  - assert (jmax = S jmin) by lia. subst. repeat split; try lia; lra.
Qed.

(* ---------- the linear formula is the chord through the two knots ---------- *)
Definition chord (t : R) (ya yb : row (T:=R)) : row (T:=R) := map (fun ab => fst ab + t * (snd ab - fst ab)) (combine ya yb).
Lemma lin_row_chord rc x y q a b : X x a <> X x b ->
  lin_row ROps rc x y q a b = chord ((q - X x a) / (X x b - X x a)) (ys y a) (ys y b).
Proof. intros Hne. unfold lin_row, chord. apply map_ext. intros [u v]. destruct rc; simpl; field; lra. Qed.
Lemma chord_0 ya yb : length ya = length yb -> chord 0 ya yb = ya.
Proof. revert yb. induction ya as [|u ya IH]; intros [|v yb] H; simpl in *; try discriminate; [reflexivity|].
  unfold chord in *. simpl. f_equal; [lra|]. apply IH. lia. Qed.
Lemma chord_1 ya yb : length ya = length yb -> chord 1 ya yb = yb.
Proof. revert yb. induction ya as [|u ya IH]; intros [|v yb] H; simpl in *; try discriminate; [reflexivity|].
  unfold chord in *. simpl. f_equal; [lra|]. apply IH. lia. Qed.

(* ---------- 1-D linear interpolation with increasing coordinates ---------- *)
Definition rect (y : list (row (T:=R))) : Prop := forall i j, (i < length y)%nat -> (j < length y)%nat -> length (ys y i) = length (ys y j).

(* strictly inside the range: the chord of the bracketing interval *)
Theorem interp1_inside_up rc p x y c q : increasing x -> (2 <= length x)%nat -> X x 0 < q < X x (length x - 1) ->
  exists a, (S a < length x)%nat /\ X x a < q <= X x (S a) /\
    interp1_query ROps rc Linear p x y c q = chord ((q - X x a) / (X x (S a) - X x a)) (ys y a) (ys y (S a)).
Proof.
  intros Hinc Hn Hq. unfold interp1_query.
  change (oltb ROps (xs ROps x 0) (xs ROps x 1)) with (Rltb (X x 0) (X x 1)).
  destruct (Rltb_spec (X x 0) (X x 1)) as [_|Hno]; [|exfalso; apply Hno; apply Hinc; lia].
  change (oleb ROps q (xs ROps x 0)) with (Rleb q (X x 0)). destruct (Rleb_spec q (X x 0)); [lra|].
  change (oleb ROps (xs ROps x (length x - 1)) q) with (Rleb (X x (length x - 1)) q). destruct (Rleb_spec (X x (length x - 1)) q); [lra|].
  pose proof (bisect_up x q Hinc (length x) 0%nat (length x - 1)%nat ltac:(lia) ltac:(lia) ltac:(lra)) as HB.
  destruct (bisect ROps (length x) true x q 0 (length x - 1)) as [a b]. destruct HB as (-> & _ & Hb & Hab).
  exists a. split; [lia|]. split; [exact Hab|]. apply lin_row_chord. assert (X x a < X x (S a)) by (apply Hinc; lia). lra.
Qed.

(* at every knot the data value itself (interior knots through the chord end-point, end knots through
   the extrapolation branch) - for all three policies *)
Theorem interp1_at_knot_up rc p x y c k : increasing x -> (2 <= length x)%nat -> length x = length y -> rect y ->
  (k < length x)%nat -> interp1_query ROps rc Linear p x y c (X x k) = ys y k.
Proof.
  intros Hinc Hn Hl Hrect Hk.
  destruct (Nat.eq_dec k 0) as [->|Hk0]; [|destruct (Nat.eq_dec k (length x - 1)) as [->|Hkl]].
  - (* first knot *) unfold interp1_query.
    change (oltb ROps (xs ROps x 0) (xs ROps x 1)) with (Rltb (X x 0) (X x 1)).
    destruct (Rltb_spec (X x 0) (X x 1)) as [H01|Hno]; [|exfalso; apply Hno; apply Hinc; lia].
    change (oleb ROps (X x 0) (xs ROps x 0)) with (Rleb (X x 0) (X x 0)). destruct (Rleb_spec (X x 0) (X x 0)); [|lra].
    destruct p.
    + rewrite lin_row_chord by lra. replace ((X x 0 - X x 0) / (X x 1 - X x 0)) with 0 by (field; lra).
      apply chord_0. apply Hrect; lia.
    + reflexivity.
    + change (oeqb ROps (X x 0) (xs ROps x 0)) with (Reqb (X x 0) (X x 0)). destruct (Reqb_spec (X x 0) (X x 0)); [reflexivity|congruence].
  - (* last knot *) unfold interp1_query. set (l := (length x - 1)%nat) in *.
    change (oltb ROps (xs ROps x 0) (xs ROps x 1)) with (Rltb (X x 0) (X x 1)).
    destruct (Rltb_spec (X x 0) (X x 1)) as [H01|Hno]; [|exfalso; apply Hno; apply Hinc; lia].
    assert (X x 0 < X x l) by (apply Hinc; lia).
    change (oleb ROps (X x l) (xs ROps x 0)) with (Rleb (X x l) (X x 0)). destruct (Rleb_spec (X x l) (X x 0)); [lra|].
    change (oleb ROps (xs ROps x l) (X x l)) with (Rleb (X x l) (X x l)). destruct (Rleb_spec (X x l) (X x l)); [|lra].
    assert (X x (l - 1) < X x l) by (apply Hinc; lia).
    destruct p.
    + rewrite lin_row_chord by lra. replace ((X x l - X x (l - 1)) / (X x l - X x (l - 1))) with 1 by (field; lra).
      apply chord_1. apply Hrect; lia.
    + reflexivity.
    + change (oeqb ROps (X x l) (xs ROps x l)) with (Reqb (X x l) (X x l)). destruct (Reqb_spec (X x l) (X x l)); [reflexivity|congruence].
  - (* interior knot: q = x_k is the right end of its bracket *)
    assert (X x 0 < X x k < X x (length x - 1)) as Hq by (split; apply Hinc; lia).
    destruct (interp1_inside_up rc p x y c (X x k) Hinc Hn Hq) as (a & Ha & Hab & ->).
    assert (k = S a) as ->.
    { destruct (Nat.lt_trichotomy k (S a)) as [Hlt|[E|Hgt]]; [|exact E|].
      - destruct (Nat.eq_dec k a) as [->|Hne]; [lra|]. assert (X x k < X x a) by (apply Hinc; lia). lra.
      - assert (X x (S a) < X x k) by (apply Hinc; lia). lra. }
    assert (X x a < X x (S a)) by (apply Hinc; lia).
    replace ((X x (S a) - X x a) / (X x (S a) - X x a)) with 1 by (field; lra). apply chord_1. apply Hrect; lia.
Qed.

(* outside the range: linear continuation of the end interval, the end value, or the constant *)
Theorem interp1_left_up rc p x y c q : increasing x -> (2 <= length x)%nat -> q < X x 0 ->
  interp1_query ROps rc Linear p x y c q =
  match p with
  | PLinear => chord ((q - X x 0) / (X x 1 - X x 0)) (ys y 0) (ys y 1)
  | PClamp => ys y 0
  | PConstant => const_row y c
  end.
Proof.
  intros Hinc Hn Hq. unfold interp1_query.
  change (oltb ROps (xs ROps x 0) (xs ROps x 1)) with (Rltb (X x 0) (X x 1)).
  destruct (Rltb_spec (X x 0) (X x 1)) as [H01|Hno]; [|exfalso; apply Hno; apply Hinc; lia].
  change (oleb ROps q (xs ROps x 0)) with (Rleb q (X x 0)). destruct (Rleb_spec q (X x 0)); [|lra].
  destruct p; [apply lin_row_chord; lra|reflexivity|].
  change (oeqb ROps q (xs ROps x 0)) with (Reqb q (X x 0)). destruct (Reqb_spec q (X x 0)); [lra|reflexivity].
Qed.
Theorem interp1_right_up rc p x y c q : increasing x -> (2 <= length x)%nat -> X x (length x - 1) < q ->
  interp1_query ROps rc Linear p x y c q =
  match p with
  | PLinear => chord ((q - X x (length x - 2)) / (X x (length x - 1) - X x (length x - 2))) (ys y (length x - 2)) (ys y (length x - 1))
  | PClamp => ys y (length x - 1)
  | PConstant => const_row y c
  end.
Proof.
  intros Hinc Hn Hq. unfold interp1_query. set (l := (length x - 1)%nat) in *.
  change (oltb ROps (xs ROps x 0) (xs ROps x 1)) with (Rltb (X x 0) (X x 1)).
  destruct (Rltb_spec (X x 0) (X x 1)) as [H01|Hno]; [|exfalso; apply Hno; apply Hinc; lia].
  assert (X x 0 <= X x l) by (destruct (Nat.eq_dec l 0) as [->|]; [lra|left; apply Hinc; lia]).
  change (oleb ROps q (xs ROps x 0)) with (Rleb q (X x 0)). destruct (Rleb_spec q (X x 0)); [lra|].
  change (oleb ROps (xs ROps x l) q) with (Rleb (X x l) q). destruct (Rleb_spec (X x l) q); [|lra].
  replace (length x - 2)%nat with (l - 1)%nat by lia.
  assert (X x (l - 1) < X x l) by (apply Hinc; lia).
  destruct p; [apply lin_row_chord; lra|reflexivity|].
  change (oeqb ROps q (xs ROps x l)) with (Reqb q (X x l)). destruct (Reqb_spec q (X x l)); [lra|reflexivity].
Qed.

(* decreasing coordinates: the same bracket with the order reversed *)
Theorem interp1_inside_down rc p x y c q : decreasing x -> (2 <= length x)%nat -> X x (length x - 1) < q < X x 0 ->
  exists a, (S a < length x)%nat /\ X x (S a) <= q < X x a /\
    interp1_query ROps rc Linear p x y c q = chord ((q - X x a) / (X x (S a) - X x a)) (ys y a) (ys y (S a)).
Proof.
  intros Hdec Hn Hq. unfold interp1_query.
  change (oltb ROps (xs ROps x 0) (xs ROps x 1)) with (Rltb (X x 0) (X x 1)).
  destruct (Rltb_spec (X x 0) (X x 1)) as [Hno|_]; [assert (X x 1 < X x 0) by (apply Hdec; lia); lra|].
  change (oleb ROps (xs ROps x 0) q) with (Rleb (X x 0) q). destruct (Rleb_spec (X x 0) q); [lra|].
  change (oleb ROps q (xs ROps x (length x - 1))) with (Rleb q (X x (length x - 1))). destruct (Rleb_spec q (X x (length x - 1))); [lra|].
  pose proof (bisect_down x q Hdec (length x) 0%nat (length x - 1)%nat ltac:(lia) ltac:(lia) ltac:(lra)) as HB.
  destruct (bisect ROps (length x) false x q 0 (length x - 1)) as [a b]. destruct HB as (-> & _ & Hb & Hab).
  exists a. split; [lia|]. split; [exact Hab|]. apply lin_row_chord. assert (X x (S a) < X x a) by (apply Hdec; lia). lra.
Qed.

(* ---------- weights used by interp2d / interp3d ---------- *)
(* w*ya + (1-w)*yb with w = (x_{j+1}-q)/(x_{j+1}-x_j) is the same chord *)
Lemma weight_chord (xa xb q : R) (ya yb : row (T:=R)) : xa <> xb ->
  row_add ROps (row_scale ROps ((xb - q) / (xb - xa)) ya) (row_scale ROps (one_minus ROps ((xb - q) / (xb - xa))) yb)
  = chord ((q - xa) / (xb - xa)) ya yb.
Proof.
  intros Hne. unfold row_add, row_scale, one_minus, chord. revert yb. induction ya as [|u ya IH]; intros [|v yb]; simpl; try reflexivity.
  f_equal; [field; lra|apply IH].
Qed.
Lemma search_up_spec x q : increasing x -> forall fuel jj, (jj + 2 <= length x)%nat -> (length x - 2 - jj <= fuel)%nat ->
  X x jj <= q <= X x (length x - 1) ->
  let r := search_up ROps fuel x q jj in (jj <= r)%nat /\ (r + 2 <= length x)%nat /\ X x r <= q <= X x (S r).
Proof.
  intros Hinc. induction fuel as [|f IH]; intros jj Hj Hf Hq; cbn [search_up].
  - assert (S jj = (length x - 1)%nat) as -> by lia. repeat split; try lia; lra.
  - destruct (Nat.ltb_spec jj (length x - 2)) as [Hlt|Hge]; simpl.
    + change (oltb ROps (xs ROps x (S jj)) q) with (Rltb (X x (S jj)) q). destruct (Rltb_spec (X x (S jj)) q) as [H|H].
      * specialize (IH (S jj) ltac:(lia) ltac:(lia) ltac:(lra)). simpl in IH. destruct IH as (? & ? & ?). repeat split; try lia; lra.
      * repeat split; try lia; lra.
    + assert (S jj = (length x - 1)%nat) as -> by lia. repeat split; try lia; lra.
Qed.
Theorem index_weight_inside_up p x q : increasing x -> (2 <= length x)%nat -> X x 0 <= q <= X x (length x - 1) ->
  let '(j, w, v) := index_weight ROps Linear p x q in
  v = true /\ (j + 2 <= length x)%nat /\ X x j <= q <= X x (S j) /\ 0 <= w <= 1 /\ w = (X x (S j) - q) / (X x (S j) - X x j).
Proof.
  intros Hinc Hn Hq. unfold index_weight.
  change (oltb ROps (xs ROps x 0) (xs ROps x 1)) with (Rltb (X x 0) (X x 1)).
  destruct (Rltb_spec (X x 0) (X x 1)) as [_|Hno]; [|exfalso; apply Hno; apply Hinc; lia].
  change (oleb ROps (xs ROps x 0) q) with (Rleb (X x 0) q). change (oleb ROps q (xs ROps x (length x - 1))) with (Rleb q (X x (length x - 1))).
  destruct (Rleb_spec (X x 0) q); [|lra]. destruct (Rleb_spec q (X x (length x - 1))); [|lra]. simpl.
  pose proof (search_up_spec x q Hinc (length x) 0%nat ltac:(lia) ltac:(lia) ltac:(lra)) as (_ & H2 & H3).
  set (jr := search_up ROps (length x) x q 0) in *.
  assert (X x jr < X x (S jr)) by (apply Hinc; lia).
  repeat split; try lia; try lra.
  - apply Rmult_le_pos; [lra|]. left. apply Rinv_0_lt_compat. lra.
  - change (odiv ROps (osub ROps (xs ROps x (S jr)) q) (osub ROps (xs ROps x (S jr)) (xs ROps x jr))) with ((X x (S jr) - q) / (X x (S jr) - X x jr)).
    apply (Rmult_le_reg_r (X x (S jr) - X x jr)); [lra|]. unfold Rdiv. rewrite Rmult_assoc, Rinv_l by lra. lra.
Qed.
