(* C06: every view-forming operation addresses exactly the parent elements its index expression
   denotes: address identity, extents, in-bounds, injectivity, closed under composition. *)
From Coq Require Import ZArith List Bool Lia Permutation.
From Adept Require Import View.
Import ListNotations.
Local Open Scope Z_scope.
Local Arguments Z.mul : simpl never.
Local Arguments Z.add : simpl never.
Local Arguments Z.sub : simpl never.
Local Arguments Z.quot : simpl never.
Local Arguments Z.leb : simpl never.
Local Arguments Z.ltb : simpl never.

Ltac b2p := repeat match goal with
  | H : _ && _ = true |- _ => apply andb_true_iff in H; destruct H
  | H : _ || _ = true |- _ => apply orb_true_iff in H; destruct H
  | H : (_ <=? _) = true |- _ => apply Z.leb_le in H
  | H : (_ <? _) = true |- _ => apply Z.ltb_lt in H
  | H : (_ =? _) = true |- _ => apply Z.eqb_eq in H
  | H : (_ <=? _) = false |- _ => apply Z.leb_gt in H
  | H : (_ <? _) = false |- _ => apply Z.ltb_ge in H
  | H : _ && _ = false |- _ => apply andb_false_iff in H; destruct H
  end.

Definition wfv (v : view) : Prop := length (dims v) = length (strides v).

(* ---------- arithmetic progression count with C++ truncating division ---------- *)
Lemma quot_pos a s : 0 <= a -> 0 < s -> Z.quot a s = a / s.
Proof. intros. apply Z.quot_div_nonneg; lia. Qed.
Lemma ap_count_pos b e s k : 0 < s -> b <= e -> 0 <= k ->
  (k < Z.quot (e + s - b) s <-> b + s * k <= e).
Proof. intros Hs Hbe Hk. rewrite quot_pos by lia.
  split; intro H.
  - assert (k + 1 <= (e + s - b) / s) as H1 by lia.
    assert (s * (k + 1) <= e + s - b).
    { pose proof (Z.mul_div_le (e + s - b) s Hs). nia. }
    lia.
  - apply Z.lt_le_pred. simpl. assert (k + 1 <= (e + s - b) / s); [|lia].
    apply Z.div_le_lower_bound; lia.
Qed.
Lemma ap_count_neg b e s k : s < 0 -> e <= b -> 0 <= k ->
  (k < Z.quot (e + s - b) s <-> e <= b + s * k).
Proof. intros Hs Hbe Hk.
  replace (Z.quot (e + s - b) s) with (Z.quot (b + (- s) - e) (- s)).
  - rewrite (ap_count_pos e b (- s) k) by lia. lia.
  - rewrite <- (Z.quot_opp_opp (e + s - b) s) by lia. f_equal. lia.
Qed.
Lemma ap_count_ge1 b e s : (0 < s /\ b <= e) \/ (s < 0 /\ e <= b) -> 1 <= Z.quot (e + s - b) s.
Proof. intros [[Hs H]|[Hs H]].
  - pose proof (ap_count_pos b e s 0 Hs H ltac:(lia)). lia.
  - pose proof (ap_count_neg b e s 0 Hs H ltac:(lia)). lia.
Qed.

(* ---------- slicing ---------- *)
Lemma slice_go_addr : forall l ds ss b j, length l = length ds -> length ds = length ss ->
  let '(b', nd, ns) := slice_go l ds ss b in b' + lin j ns = b + lin (den_slice l ds j) ss.
Proof.
  induction l as [|x l IH]; intros ds ss b j H1 H2.
  - destruct ds; [|discriminate]. simpl. destruct j; reflexivity.
  - destruct ds as [|d ds]; [discriminate|]. destruct ss as [|s ss]; [discriminate|].
    simpl in H1, H2. destruct x as [i|bb ee st].
    + cbn [slice_go den_slice]. specialize (IH ds ss (b + res d i * s) j ltac:(lia) ltac:(lia)).
      destruct (slice_go l ds ss (b + res d i * s)) as [[b' nd] ns]. cbn [lin]. lia.
    + cbn [slice_go den_slice]. destruct j as [|jj j'].
      * specialize (IH ds ss (b + res d bb * s) [] ltac:(lia) ltac:(lia)).
        destruct (slice_go l ds ss (b + res d bb * s)) as [[b' nd] ns]. cbn [lin] in *. destruct ns; simpl in IH; lia.
      * specialize (IH ds ss (b + res d bb * s) j' ltac:(lia) ltac:(lia)).
        destruct (slice_go l ds ss (b + res d bb * s)) as [[b' nd] ns]. cbn [lin]. lia.
Qed.
Theorem slice_addr v l j : wfv v -> length l = length (dims v) ->
  addr (slice v l) j = addr v (den_slice l (dims v) j).
Proof. intros Hw Hl. unfold addr, slice. pose proof (slice_go_addr l (dims v) (strides v) (base v) j Hl Hw) as H.
  destruct (slice_go l (dims v) (strides v) (base v)) as [[b' nd] ns]. simpl. exact H. Qed.

Lemma slice_go_lengths : forall l ds ss b, length l = length ds -> length ds = length ss ->
  let '(b', nd, ns) := slice_go l ds ss b in length nd = length ns.
Proof. induction l as [|x l IH]; intros ds ss b H1 H2; [destruct ds; simpl; auto|].
  destruct ds as [|d ds]; [discriminate|]. destruct ss as [|s ss]; [discriminate|]. simpl in H1, H2.
  destruct x as [i|bb ee st]; cbn [slice_go].
  - apply IH; lia.
  - specialize (IH ds ss (b + res d bb * s) ltac:(lia) ltac:(lia)).
    destruct (slice_go l ds ss (b + res d bb * s)) as [[b' nd] ns]. simpl. lia. Qed.
Lemma slice_wfv v l : wfv v -> length l = length (dims v) -> wfv (slice v l).
Proof. intros Hw Hl. unfold wfv, slice. pose proof (slice_go_lengths l (dims v) (strides v) (base v) Hl Hw) as H.
  destruct (slice_go l (dims v) (strides v) (base v)) as [[b' nd] ns]. simpl. exact H. Qed.

(* the extents do not depend on base/strides *)
Fixpoint slice_dims (l : list ix) (ds : list Z) : list Z :=
  match l, ds with
  | IS i :: l', d :: ds' => slice_dims l' ds'
  | IR bb ee st :: l', d :: ds' => Z.quot (res d ee + st - res d bb) st :: slice_dims l' ds'
  | _, _ => []
  end.
Lemma slice_go_dims : forall l ds ss b, length ds = length ss ->
  snd (fst (slice_go l ds ss b)) = slice_dims l ds.
Proof. induction l as [|x l IH]; intros ds ss b H; [reflexivity|].
  destruct ds as [|d ds]; [destruct x; reflexivity|]. destruct ss as [|s ss]; [discriminate|]. simpl in H.
  destruct x as [i|bb ee st]; cbn [slice_go slice_dims].
  - apply IH; lia.
  - specialize (IH ds ss (b + res d bb * s) ltac:(lia)).
    destruct (slice_go l ds ss (b + res d bb * s)) as [[b' nd] ns]. simpl in *. rewrite IH. reflexivity. Qed.
Lemma slice_dims_eq v l : wfv v -> dims (slice v l) = slice_dims l (dims v).
Proof. intros Hw. unfold slice. pose proof (slice_go_dims l (dims v) (strides v) (base v) Hw) as H.
  destruct (slice_go l (dims v) (strides v) (base v)) as [[b' nd] ns]. simpl in *. exact H. Qed.

(* rank = number of range arguments; every extent is the count of its arithmetic progression *)
Lemma slice_rank l : forall ds, length l = length ds ->
  length (slice_dims l ds) = length (filter (fun x => match x with IR _ _ _ => true | _ => false end) l).
Proof. induction l as [|x l IH]; intros ds H; [reflexivity|]. destruct ds as [|d ds]; [discriminate|].
  simpl in H. destruct x; cbn [slice_dims filter]; [apply IH; lia|simpl; rewrite IH by lia; reflexivity]. Qed.

Lemma adm_ix_range d bb ee st : adm_ix d (IR bb ee st) = true ->
  0 <= res d bb < d /\ 0 <= res d ee < d /\ ((0 < st /\ res d bb <= res d ee) \/ (st < 0 /\ res d ee <= res d bb)).
Proof. unfold adm_ix. intros H. b2p; lia. Qed.

Theorem slice_inb : forall l ds j, adm_slice l ds = true -> inb (slice_dims l ds) j -> inb ds (den_slice l ds j).
Proof.
  induction l as [|x l IH]; intros ds j Ha Hj.
  - destruct ds; [|discriminate]. simpl. exact I.
  - destruct ds as [|d ds]; [discriminate|]. cbn [adm_slice] in Ha. apply andb_true_iff in Ha. destruct Ha as [Hx Ha].
    destruct x as [i|bb ee st]; cbn [slice_dims den_slice] in *.
    + cbn [inb]. split; [|apply IH; assumption]. unfold adm_ix in Hx. b2p. lia.
    + destruct j as [|jj j']; [contradiction|]. cbn [inb] in *. destruct Hj as [Hjj Hj'].
      split; [|apply IH; assumption].
      destruct (adm_ix_range _ _ _ _ Hx) as (Hb & He & [[Hs Hbe]|[Hs Hbe]]).
      * pose proof (proj1 (ap_count_pos (res d bb) (res d ee) st jj Hs Hbe ltac:(lia)) ltac:(lia)). nia.
      * pose proof (proj1 (ap_count_neg (res d bb) (res d ee) st jj Hs Hbe ltac:(lia)) ltac:(lia)). nia.
Qed.

Theorem slice_extents_positive : forall l ds, adm_slice l ds = true -> Forall (fun d => 1 <= d) (slice_dims l ds).
Proof.
  induction l as [|x l IH]; intros ds Ha; [destruct ds; constructor|].
  destruct ds as [|d ds]; [discriminate|]. cbn [adm_slice] in Ha. apply andb_true_iff in Ha. destruct Ha as [Hx Ha].
  destruct x as [i|bb ee st]; cbn [slice_dims]; [apply IH; assumption|]. constructor; [|apply IH; assumption].
  destruct (adm_ix_range _ _ _ _ Hx) as (Hb & He & Hd). apply ap_count_ge1. exact Hd.
Qed.

Theorem slice_inj : forall l ds j j', adm_slice l ds = true -> inb (slice_dims l ds) j -> inb (slice_dims l ds) j' ->
  den_slice l ds j = den_slice l ds j' -> j = j'.
Proof.
  induction l as [|x l IH]; intros ds j j' Ha Hj Hj' E.
  - destruct ds; [|discriminate]. simpl in Hj, Hj'. destruct j, j'; try contradiction. reflexivity.
  - destruct ds as [|d ds]; [discriminate|]. cbn [adm_slice] in Ha. apply andb_true_iff in Ha. destruct Ha as [Hx Ha].
    destruct x as [i|bb ee st]; cbn [slice_dims den_slice] in *.
    + inversion E. eapply IH; eassumption.
    + destruct j as [|jj j1]; [contradiction|]. destruct j' as [|jj' j1']; [contradiction|].
      cbn [inb] in *. inversion E as [[E1 E2]]. destruct (adm_ix_range _ _ _ _ Hx) as (_ & _ & Hd).
      assert (jj = jj') by nia. subst. f_equal. eapply IH; try eassumption; tauto.
Qed.

(* the bounds-checked build: exactly the scalar indices and range end-points outside 0..d-1 raise *)
Definition bad_ix (d : Z) (x : ix) : Prop :=
  match x with IS i => ~ (0 <= res d i < d)
             | IR bb ee _ => ~ (0 <= res d bb < d) \/ ~ (0 <= res d ee < d) end.
Lemma chk_ix_false d x : chk_ix d x = false <-> bad_ix d x.
Proof. unfold chk_ix, bad_ix. destruct x as [i|bb ee st]; split; intro H.
  - b2p; lia.
  - apply andb_false_iff. destruct (Z.leb_spec 0 (res d i)); [right; apply Z.ltb_ge; lia|left; reflexivity].
  - b2p; lia.
  - destruct (Z.leb_spec 0 (res d bb)), (Z.ltb_spec (res d bb) d), (Z.leb_spec 0 (res d ee)), (Z.ltb_spec (res d ee) d); simpl; try reflexivity; lia.
Qed.
Lemma chk_slice_false : forall l ds, length l = length ds ->
  (chk_slice l ds = false <-> exists k x d, nth_error l k = Some x /\ nth_error ds k = Some d /\ bad_ix d x).
Proof.
  induction l as [|x l IH]; intros ds Hl.
  - destruct ds; [|discriminate]. simpl. split; [discriminate|]. intros (k & x & d & H & _). destruct k; discriminate.
  - destruct ds as [|d ds]; [discriminate|]. simpl in Hl. cbn [chk_slice]. split.
    + intros H. apply andb_false_iff in H. destruct H as [H|H].
      * exists O, x, d. simpl. repeat split. apply chk_ix_false. exact H.
      * apply IH in H; [|lia]. destruct H as (k & x' & d' & H1 & H2 & H3). exists (S k), x', d'. simpl. auto.
    + intros (k & x' & d' & H1 & H2 & H3). apply andb_false_iff. destruct k as [|k]; simpl in H1, H2.
      * inversion H1; inversion H2; subst. left. apply chk_ix_false. exact H3.
      * right. apply IH; [lia|]. exists k, x', d'. auto.
Qed.
Theorem slice_checked_spec v l : length l = length (dims v) ->
  (slice_checked v l = None <->
   exists k x d, nth_error l k = Some x /\ nth_error (dims v) k = Some d /\ bad_ix d x) /\
  (forall v', slice_checked v l = Some v' -> v' = slice v l).
Proof.
  intros Hl. unfold slice_checked. split.
  - rewrite <- (chk_slice_false l (dims v) Hl). destruct (chk_slice l (dims v)); split; congruence.
  - intros v' H. destruct (chk_slice l (dims v)); congruence.
Qed.

(* ---------- pointwise characterisation of in-bounds ---------- *)
Lemma inb_length : forall ds j, inb ds j -> length ds = length j.
Proof. induction ds as [|d ds IH]; intros [|i j] H; simpl in *; try contradiction; auto. f_equal. apply IH. tauto. Qed.
Lemma inb_nth : forall ds j, inb ds j -> forall k, (k < length ds)%nat -> 0 <= nth k j 0 < nth k ds 0.
Proof. induction ds as [|d ds IH]; intros [|i j] H k Hk; simpl in *; try contradiction; try lia.
  destruct k as [|k]; [tauto|]. apply IH; [tauto|lia]. Qed.
Lemma inb_of_nth : forall ds j, length ds = length j ->
  (forall k, (k < length ds)%nat -> 0 <= nth k j 0 < nth k ds 0) -> inb ds j.
Proof. induction ds as [|d ds IH]; intros [|i j] Hl H; simpl in *; try discriminate; auto.
  split; [apply (H O); lia|]. apply IH; [lia|]. intros k Hk. apply (H (S k)). lia. Qed.

(* ---------- operator[] , T, diag_vector, submatrix_on_diagonal ---------- *)
Lemma index0_facts v i j : wfv v -> adm_op v (OIndex0 i) = true -> inb (dims (index0 v i)) j ->
  addr (index0 v i) j = addr v (den_op v (OIndex0 i) j) /\ inb (dims v) (den_op v (OIndex0 i) j) /\ wfv (index0 v i).
Proof.
  unfold wfv, index0, adm_op, den_op, addr. destruct (dims v) as [|d [|d2 ds]]; try discriminate.
  destruct (strides v) as [|s ss]; [discriminate|]. intros Hw Ha Hj. simpl in *. b2p.
  repeat split; try lia; try assumption.
Qed.
Lemma transpose_facts v j : wfv v -> adm_op v OTranspose = true -> inb (dims (transpose v)) j ->
  addr (transpose v) j = addr v (den_op v OTranspose j) /\ inb (dims v) (den_op v OTranspose j) /\ wfv (transpose v).
Proof.
  unfold wfv, transpose, adm_op, den_op, addr. destruct (dims v) as [|d0 [|d1 [|? ?]]]; try discriminate.
  destruct (strides v) as [|s0 [|s1 [|? ?]]]; try discriminate. intros _ _ Hj. simpl in Hj.
  destruct j as [|a [|b [|? ?]]]; simpl in Hj; try tauto. simpl. repeat split; try lia.
Qed.
Lemma diag_facts v k j : wfv v -> adm_op v (ODiag k) = true -> inb (dims (diag_vector v k)) j ->
  addr (diag_vector v k) j = addr v (den_op v (ODiag k) j) /\ inb (dims v) (den_op v (ODiag k) j) /\ wfv (diag_vector v k).
Proof.
  unfold wfv, diag_vector, adm_op, den_op, addr. destruct (dims v) as [|d0 [|d1 [|? ?]]]; try discriminate.
  destruct (strides v) as [|s0 [|s1 [|? ?]]]; try discriminate. intros _ Ha Hj. b2p. subst d1.
  destruct (Z.leb_spec 0 k); simpl in Hj; destruct j as [|a [|? ?]]; simpl in Hj; try tauto; simpl; repeat split; try lia.
Qed.
Lemma subdiag_facts v ib ie j : wfv v -> adm_op v (OSubDiag ib ie) = true -> inb (dims (submatrix_on_diagonal v ib ie)) j ->
  addr (submatrix_on_diagonal v ib ie) j = addr v (den_op v (OSubDiag ib ie) j) /\
  inb (dims v) (den_op v (OSubDiag ib ie) j) /\ wfv (submatrix_on_diagonal v ib ie).
Proof.
  unfold wfv, submatrix_on_diagonal, adm_op, den_op, addr. destruct (dims v) as [|d0 [|d1 [|? ?]]]; try discriminate.
  destruct (strides v) as [|s0 [|s1 [|? ?]]]; try discriminate. intros _ Ha Hj. b2p. subst d1.
  simpl in Hj. destruct j as [|a [|b [|? ?]]]; simpl in Hj; try tauto. simpl. repeat split; try lia.
Qed.

(* ---------- reshape: mixed-radix numbering ---------- *)
Notation prod l := (fold_right Z.mul 1 l).
Lemma reshape_strides_head : forall nd s0, nd <> [] ->
  exists ss, reshape_strides nd s0 = prod (tl nd) * s0 :: ss /\ length ss = length (tl nd).
Proof.
  induction nd as [|d nd IH]; intros s0 H; [congruence|]. destruct nd as [|d' nd'].
  - exists []. simpl. split; [f_equal; lia|reflexivity].
  - destruct (IH s0 ltac:(discriminate)) as (ss & E & L).
    change (reshape_strides (d :: d' :: nd') s0) with
      (match reshape_strides (d' :: nd') s0 with s' :: ss0 => d' * s' :: s' :: ss0 | [] => [] end). rewrite E.
    exists (prod nd' * s0 :: ss). cbn [tl length fold_right] in *. split; [f_equal; lia|lia].
Qed.
Lemma lin_reshape : forall nd j s0, nd <> [] -> length nd = length j ->
  lin j (reshape_strides nd s0) = lin_packed nd j * s0.
Proof.
  induction nd as [|d nd IH]; intros j s0 Hn Hl; [congruence|]. destruct j as [|i j]; [discriminate|].
  destruct nd as [|d' nd'].
  - simpl. destruct j; [|discriminate]. simpl. lia.
  - destruct (reshape_strides_head (d' :: nd') s0 ltac:(discriminate)) as (ss & E & L).
    specialize (IH j s0 ltac:(discriminate) ltac:(simpl in *; lia)).
    change (reshape_strides (d :: d' :: nd') s0) with
      (match reshape_strides (d' :: nd') s0 with s' :: ss0 => d' * s' :: s' :: ss0 | [] => [] end).
    rewrite E in *. cbn [lin lin_packed]. cbn [lin_packed] in IH. rewrite IH.
    cbn [tl]. change (fold_right Z.mul 1 (d' :: nd')) with (d' * prod nd'). lia.
Qed.
Lemma lin_packed_bound : forall nd j, inb nd j -> 0 <= lin_packed nd j < prod nd.
Proof. induction nd as [|d nd IH]; intros [|i j] H; simpl in *; try contradiction; [lia|].
  destruct H as [Hi Hj]. specialize (IH j Hj). nia. Qed.
Lemma lin_packed_inj : forall nd j j', inb nd j -> inb nd j' -> lin_packed nd j = lin_packed nd j' -> j = j'.
Proof. induction nd as [|d nd IH]; intros [|i j] [|i' j'] H H' E; simpl in *; try contradiction; [reflexivity|].
  destruct H as [Hi Hj]. destruct H' as [Hi' Hj'].
  pose proof (lin_packed_bound nd j Hj). pose proof (lin_packed_bound nd j' Hj').
  assert (i = i') by nia. subst. f_equal. apply IH; try assumption. lia. Qed.
Lemma reshape_facts v nd j : wfv v -> adm_op v (OReshape nd) = true -> inb (dims (reshape v nd)) j ->
  addr (reshape v nd) j = addr v (den_op v (OReshape nd) j) /\ inb (dims v) (den_op v (OReshape nd) j) /\ wfv (reshape v nd).
Proof.
  unfold wfv, reshape, adm_op, den_op, addr. destruct (dims v) as [|d [|? ?]]; try discriminate.
  destruct (strides v) as [|s0 [|? ?]]; try discriminate. intros _ Ha Hj. simpl in Hj.
  apply andb_true_iff in Ha. destruct Ha as [Ha Hne]. apply andb_true_iff in Ha. destruct Ha as [Hp Hpos]. apply Z.eqb_eq in Hp.
  assert (nd <> []) as Hnn by (destruct nd; [discriminate|discriminate]).
  pose proof (lin_packed_bound nd j Hj). simpl. repeat split; try lia.
  - rewrite lin_reshape by (auto using inb_length). lia.
  - destruct (reshape_strides_head nd s0 Hnn) as (ss & E & L). rewrite E. simpl. rewrite L. destruct nd; [congruence|reflexivity].
Qed.

(* ---------- permute: sums re-indexed by a permutation ---------- *)
Fixpoint sumf (f : nat -> Z) (l : list nat) : Z := match l with [] => 0 | k :: t => f k + sumf f t end.
Lemma sumf_perm f l l' : Permutation l l' -> sumf f l = sumf f l'.
Proof. induction 1; simpl; lia. Qed.
Lemma sumf_ext_in f g l : (forall k, In k l -> f k = g k) -> sumf f l = sumf g l.
Proof. induction l as [|k l IH]; intros H; simpl; [reflexivity|]. rewrite (H k) by (left; reflexivity).
  rewrite IH by (intros; apply H; right; assumption). reflexivity. Qed.
Lemma lin_map_seq (h : nat -> Z) : forall ss a, lin (map h (seq a (length ss))) ss = sumf (fun k => h k * nth (k - a) ss 0) (seq a (length ss)).
Proof. induction ss as [|s ss IH]; intros a; simpl; [reflexivity|]. rewrite Nat.sub_diag. rewrite IH. f_equal.
  apply sumf_ext_in. intros k Hk. apply in_seq in Hk. replace (k - a)%nat with (S (k - S a)) by lia. reflexivity. Qed.
Lemma index_of_head k p : index_of k (k :: p) = O.
Proof. simpl. rewrite Nat.eqb_refl. reflexivity. Qed.
Lemma index_of_tail k h p : h <> k -> index_of k (h :: p) = S (index_of k p).
Proof. intros H. simpl. destruct (Nat.eqb_spec h k); [contradiction|reflexivity]. Qed.
Lemma index_of_nth k p : In k p -> nth (index_of k p) p O = k /\ (index_of k p < length p)%nat.
Proof. induction p as [|h p IH]; intros H; [contradiction|]. simpl. destruct (Nat.eqb_spec h k) as [->|Hne].
  - split; [reflexivity|lia]. - destruct H as [H|H]; [contradiction|]. destruct (IH H). split; [assumption|lia]. Qed.
Lemma index_of_nth_NoDup p : NoDup p -> forall i, (i < length p)%nat -> index_of (nth i p O) p = i.
Proof. induction 1 as [|h p Hnot HND IH]; intros i Hi; [simpl in Hi; lia|]. destruct i as [|i]; simpl.
  - rewrite Nat.eqb_refl. reflexivity.
  - simpl in Hi. destruct (Nat.eqb_spec h (nth i p O)) as [E|_].
    + exfalso. apply Hnot. rewrite E. apply nth_In. lia. + f_equal. apply IH. lia. Qed.
Lemma lin_permuted (g : nat -> Z) : forall p j, NoDup p -> length j = length p ->
  lin j (map g p) = sumf (fun k => nth (index_of k p) j 0 * g k) p.
Proof.
  induction p as [|h p IH]; intros j HND Hl; [destruct j; reflexivity|]. destruct j as [|jj j]; [discriminate|].
  inversion HND as [|? ? Hnot HND']; subst. cbn [map lin sumf]. rewrite index_of_head. cbn [nth]. f_equal.
  rewrite IH by (auto; simpl in Hl; lia). apply sumf_ext_in. intros k Hk.
  rewrite index_of_tail by (intro; subst; contradiction). reflexivity.
Qed.
Lemma nth_map_seq0 {A} (f : nat -> A) n k d : (k < n)%nat -> nth k (map f (seq 0 n)) d = f k.
Proof. intros H. rewrite (nth_indep _ d (f O)) by (rewrite map_length, seq_length; exact H).
  rewrite map_nth. rewrite seq_nth by exact H. reflexivity. Qed.
Lemma nth_map_nat {A} (f : nat -> A) (l : list nat) k d : (k < length l)%nat -> nth k (map f l) d = f (nth k l O).
Proof. intros H. rewrite (nth_indep _ d (f O)) by (rewrite map_length; exact H). apply map_nth. Qed.
Definition is_perm (p : list nat) (n : nat) : Prop := length p = n /\ (forall k, In k p -> (k < n)%nat) /\ NoDup p.
Lemma is_perm_Permutation p n : is_perm p n -> Permutation p (seq 0 n).
Proof. intros (Hl & Hlt & HND). apply NoDup_Permutation_bis; [exact HND|rewrite seq_length; lia|].
  intros k Hk. apply in_seq. specialize (Hlt k Hk). lia. Qed.
Lemma adm_permute_is_perm v p : adm_op v (OPermute p) = true -> is_perm p (length (dims v)).
Proof. unfold adm_op. intros H. apply andb_true_iff in H. destruct H as [H H3]. apply andb_true_iff in H. destruct H as [H1 H2].
  apply Nat.eqb_eq in H1. apply Nat.eqb_eq in H3. rewrite forallb_forall in H2. repeat split.
  - exact H1. - intros k Hk. apply Nat.ltb_lt. apply H2. exact Hk.
  - clear -H3. induction p as [|h p IH]; [constructor|]. simpl in H3. destruct (in_dec Nat.eq_dec h p) as [Hin|Hnot].
    + exfalso. pose proof (NoDup_incl_length (NoDup_nodup Nat.eq_dec p) (fun x Hx => proj1 (nodup_In Nat.eq_dec p x) Hx)). lia.
    + constructor; [exact Hnot|]. apply IH. simpl in H3. lia. Qed.
Lemma permute_facts v p j : wfv v -> adm_op v (OPermute p) = true -> inb (dims (permute v p)) j ->
  addr (permute v p) j = addr v (den_op v (OPermute p) j) /\ inb (dims v) (den_op v (OPermute p) j) /\ wfv (permute v p).
Proof.
  intros Hw Ha Hj. pose proof (adm_permute_is_perm v p Ha) as (Hl & Hlt & HND).
  pose proof (is_perm_Permutation p _ (conj Hl (conj Hlt HND))) as HP.
  unfold permute in *. simpl in Hj. pose proof (inb_length _ _ Hj) as Hlj. rewrite map_length in Hlj.
  split; [|split].
  - unfold addr, den_op. simpl. f_equal. rewrite (lin_permuted (fun k => nth k (strides v) 0) p j HND ltac:(lia)).
    rewrite (sumf_perm _ _ _ HP). unfold wfv in Hw. rewrite Hw. rewrite lin_map_seq. apply sumf_ext_in.
    intros k Hk. rewrite Nat.sub_0_r. reflexivity.
  - unfold den_op. apply inb_of_nth; [rewrite map_length, seq_length; reflexivity|]. intros k Hk.
    assert (In k p) as Hin by (eapply Permutation_in; [symmetry; exact HP|apply in_seq; lia]).
    destruct (index_of_nth k p Hin) as [E1 E2].
    rewrite nth_map_seq0 by exact Hk.
    pose proof (inb_nth _ _ Hj (index_of k p) ltac:(rewrite map_length; exact E2)) as Hb.
    rewrite nth_map_nat in Hb by exact E2. rewrite E1 in Hb. exact Hb.
  - unfold wfv. simpl. rewrite !map_length. reflexivity.
Qed.
Lemma permute_inj v p j j' : adm_op v (OPermute p) = true -> inb (dims (permute v p)) j -> inb (dims (permute v p)) j' ->
  den_op v (OPermute p) j = den_op v (OPermute p) j' -> j = j'.
Proof.
  intros Ha Hj Hj' E. pose proof (adm_permute_is_perm v p Ha) as (Hl & Hlt & HND).
  unfold permute in *. simpl in Hj, Hj'. pose proof (inb_length _ _ Hj) as L1. pose proof (inb_length _ _ Hj') as L2.
  rewrite map_length in L1, L2. apply (nth_ext j j' 0 0); [lia|]. intros i Hi.
  unfold den_op in E. assert (nth (nth i p O) (map (fun k => nth (index_of k p) j 0) (seq 0 (length (dims v)))) 0
                            = nth (nth i p O) (map (fun k => nth (index_of k p) j' 0) (seq 0 (length (dims v)))) 0) as E' by (rewrite E; reflexivity).
  assert (nth i p O < length (dims v))%nat as Hk by (apply Hlt; apply nth_In; lia).
  rewrite !nth_map_seq0 in E' by exact Hk. rewrite index_of_nth_NoDup in E' by (auto; lia). exact E'.
Qed.

(* ---------- every operation: address identity, in-bounds, well-formedness, injectivity ---------- *)
Lemma adm_slice_length : forall l ds, adm_slice l ds = true -> length l = length ds.
Proof. induction l as [|x l IH]; intros [|d ds] H; simpl in *; try discriminate; auto.
  apply andb_true_iff in H. f_equal. apply IH. tauto. Qed.

Theorem op_facts v o j : wfv v -> adm_op v o = true -> inb (dims (apply_op v o)) j ->
  addr (apply_op v o) j = addr v (den_op v o j) /\ inb (dims v) (den_op v o j) /\ wfv (apply_op v o).
Proof.
  intros Hw Ha Hj. destruct o as [l|i| |p|k|ib ie|nd| ]; simpl apply_op in *.
  - pose proof (adm_slice_length _ _ Ha) as Hl. split; [apply slice_addr; assumption|]. split.
    + apply slice_inb; [exact Ha|]. rewrite <- slice_dims_eq by exact Hw. exact Hj.
    + apply slice_wfv; assumption.
  - apply index0_facts; assumption.
  - apply transpose_facts; assumption.
  - apply permute_facts; assumption.
  - apply diag_facts; assumption.
  - apply subdiag_facts; assumption.
  - apply reshape_facts; assumption.
  - unfold soft_link in *. simpl. auto.
Qed.

Theorem op_inj v o j j' : wfv v -> adm_op v o = true -> inb (dims (apply_op v o)) j -> inb (dims (apply_op v o)) j' ->
  den_op v o j = den_op v o j' -> j = j'.
Proof.
  intros Hw Ha. destruct o as [l|i| |p|k|ib ie|nd| ]; simpl apply_op.
  - intros Hj Hj' E. rewrite slice_dims_eq in Hj, Hj' by exact Hw. eapply slice_inj; eassumption.
  - unfold den_op, adm_op in *. destruct (dims v) as [|d ds]; [discriminate|]. intros _ _ E. inversion E. reflexivity.
  - revert Hw Ha. unfold wfv, den_op, transpose, adm_op. destruct (dims v) as [|d0 [|d1 [|? ?]]]; try discriminate.
    destruct (strides v) as [|s0 [|s1 [|? ?]]]; try discriminate; intros _ _; simpl; intros Hj Hj' E;
    destruct j as [|a [|b [|? ?]]]; simpl in Hj; try tauto; destruct j' as [|a' [|b' [|? ?]]]; simpl in Hj'; try tauto.
    inversion E. reflexivity.
  - intros Hj Hj' E. eapply permute_inj; eassumption.
  - revert Hw Ha. unfold wfv, den_op, diag_vector, adm_op. destruct (dims v) as [|d0 [|d1 [|? ?]]]; try discriminate.
    destruct (strides v) as [|s0 [|s1 [|? ?]]]; try discriminate; intros _ _;
    destruct (Z.leb_spec 0 k); simpl; intros Hj Hj' E; destruct j as [|a [|? ?]]; simpl in Hj; try tauto;
      destruct j' as [|a' [|? ?]]; simpl in Hj'; try tauto; inversion E; f_equal; lia.
  - revert Hw Ha. unfold wfv, den_op, submatrix_on_diagonal, adm_op. destruct (dims v) as [|d0 [|d1 [|? ?]]]; try discriminate.
    destruct (strides v) as [|s0 [|s1 [|? ?]]]; try discriminate; intros _ _; simpl; intros Hj Hj' E;
    destruct j as [|a [|b [|? ?]]]; simpl in Hj; try tauto; destruct j' as [|a' [|b' [|? ?]]]; simpl in Hj'; try tauto.
    inversion E. f_equal; [lia|f_equal; lia].
  - revert Hw Ha. unfold wfv, den_op, reshape, adm_op. destruct (dims v) as [|d [|? ?]]; try discriminate.
    destruct (strides v) as [|s0 [|? ?]]; try discriminate; intros _ _; simpl; intros Hj Hj' E. inversion E.
    eapply lin_packed_inj; eassumption.
  - intros _ _ E. exact E.
Qed.

(* ---------- compositions of any length ---------- *)

Lemma op_wfv v o : wfv v -> adm_op v o = true -> wfv (apply_op v o).
Proof.
  intros Hw Ha. destruct o as [l|i| |p|k|ib ie|nd| ]; simpl apply_op.
  - apply slice_wfv; [exact Hw|]. apply adm_slice_length. exact Ha.
  - unfold wfv, index0, adm_op in *. destruct (dims v) as [|d [|d2 ds]]; try discriminate.
    destruct (strides v) as [|s ss]; [discriminate|]. simpl in *. lia.
  - unfold wfv, transpose, adm_op in *. destruct (dims v) as [|d0 [|d1 [|? ?]]]; try discriminate.
    destruct (strides v) as [|s0 [|s1 [|? ?]]]; try discriminate. reflexivity.
  - unfold wfv, permute. simpl. rewrite !map_length. reflexivity.
  - unfold wfv, diag_vector, adm_op in *. destruct (dims v) as [|d0 [|d1 [|? ?]]]; try discriminate.
    destruct (strides v) as [|s0 [|s1 [|? ?]]]; try discriminate. destruct (0 <=? k); reflexivity.
  - unfold wfv, submatrix_on_diagonal, adm_op in *. destruct (dims v) as [|d0 [|d1 [|? ?]]]; try discriminate.
    destruct (strides v) as [|s0 [|s1 [|? ?]]]; try discriminate. reflexivity.
  - unfold wfv, reshape, adm_op in *. destruct (dims v) as [|d [|? ?]]; try discriminate.
    destruct (strides v) as [|s0 [|? ?]]; try discriminate.
    apply andb_true_iff in Ha. destruct Ha as [_ Hne]. assert (nd <> []) as Hnn by (destruct nd; [discriminate|discriminate]).
    destruct (reshape_strides_head nd s0 Hnn) as (ss & E & L). rewrite E. simpl. rewrite L. destruct nd; [congruence|reflexivity].
  - exact Hw.
Qed.

Theorem compose_facts : forall os v j, wfv v -> adm_ops v os = true -> inb (dims (apply_ops v os)) j ->
  addr (apply_ops v os) j = addr v (den_ops v os j) /\ inb (dims v) (den_ops v os j) /\ wfv (apply_ops v os).
Proof.
  induction os as [|o os IH]; intros v j Hw Ha Hj; [simpl in *; auto|].
  cbn [adm_ops] in Ha. apply andb_true_iff in Ha. destruct Ha as [Ha1 Ha2].
  unfold apply_ops in *. cbn [fold_left] in *.
  pose proof (op_wfv v o Hw Ha1) as Hw'.
  destruct (IH (apply_op v o) j Hw' Ha2 Hj) as (A' & B' & C').
  destruct (op_facts v o _ Hw Ha1 B') as (A & B & _).
  cbn [den_ops]. split; [rewrite A'; exact A|]. split; [exact B|exact C'].
Qed.

Theorem compose_inj : forall os v j j', wfv v -> adm_ops v os = true ->
  inb (dims (apply_ops v os)) j -> inb (dims (apply_ops v os)) j' -> den_ops v os j = den_ops v os j' -> j = j'.
Proof.
  induction os as [|o os IH]; intros v j j' Hw Ha Hj Hj' E; [exact E|].
  cbn [adm_ops] in Ha. apply andb_true_iff in Ha. destruct Ha as [Ha1 Ha2].
  unfold apply_ops in *. cbn [fold_left den_ops] in *.
  pose proof (op_wfv v o Hw Ha1) as Hw'.
  destruct (compose_facts os (apply_op v o) j Hw' Ha2 Hj) as (_ & B1 & _).
  destruct (compose_facts os (apply_op v o) j' Hw' Ha2 Hj') as (_ & B2 & _).
  apply (IH (apply_op v o) j j' Hw' Ha2 Hj Hj'). exact (op_inj v o _ _ Hw Ha1 B1 B2 E).
Qed.

(* footprint: a packed parent stores index idx at its mixed-radix number; every element of every
   admissible derived view is one of the parent's elements, distinct elements are distinct cells *)
Lemma lin_packed_strides : forall ds idx, lin idx (packed_strides ds) = lin_packed ds idx.
Proof. induction ds as [|d ds IH]; intros [|i idx]; simpl; try reflexivity. rewrite IH. reflexivity. Qed.
Lemma parent_wfv ds : wfv (parent ds).
Proof. unfold wfv, parent. simpl. induction ds as [|d ds IH]; simpl; [reflexivity|]. f_equal. exact IH. Qed.
Theorem view_of_parent_cells ds os j j' : adm_ops (parent ds) os = true ->
  inb (dims (apply_ops (parent ds) os)) j -> inb (dims (apply_ops (parent ds) os)) j' ->
  let a := addr (apply_ops (parent ds) os) j in
  0 <= a < fold_right Z.mul 1 ds /\
  a = lin_packed ds (den_ops (parent ds) os j) /\
  (addr (apply_ops (parent ds) os) j' = a -> j' = j).
Proof.
  intros Ha Hj Hj' a. destruct (compose_facts os (parent ds) j (parent_wfv ds) Ha Hj) as (A & B & _).
  destruct (compose_facts os (parent ds) j' (parent_wfv ds) Ha Hj') as (A' & B' & _).
  assert (forall idx, addr (parent ds) idx = lin_packed ds idx) as Hp.
  { intros idx. unfold addr, parent. simpl. rewrite lin_packed_strides. lia. }
  unfold a. rewrite A, Hp. split; [|split].
  - pose proof (lin_packed_bound ds _ B). lia.
  - reflexivity.
  - intros E. rewrite A', Hp in E.
    symmetry. eapply compose_inj; [apply parent_wfv|exact Ha|exact Hj|exact Hj'|].
    apply (lin_packed_inj ds _ _ B B'). symmetry. exact E.
Qed.
