(* Core lemma shared by C01, C02, C13: the reverse sweep is the transpose of the forward sweep,
   <rev t v, u> = <v, fwd t u>, for every tape whose indices are below n, over any commutative
   ring.  The "a != 0" shortcut of compute_adjoint is shown sound. *)
From Coq Require Import List Arith Lia Ring Bool.
From Adept Require Import Scalar Tape.
Import ListNotations.

Section Adj.
Context {T : Type} (O : Ops T).
Hypothesis Rth : ring_theory (o0 O) (o1 O) (oadd O) (omul O) (osub O) (oneg O) (@eq T).
(* the only fact used about the comparison: "a == 0.0" true means a is the ring zero *)
Hypothesis eqb_true : forall a b, oeqb O a b = true -> a = b.
Add Ring Tring : Rth.
Notation "x + y" := (oadd O x y). Notation "x * y" := (omul O x y).
Notation "0" := (o0 O). Notation "1" := (o1 O).
Notation upd := (upd (T:=T)). Notation dot := (dot O). Notation rhs_val := (rhs_val O).
Notation scatter := (scatter O). Notation fwd1 := (fwd1 O). Notation rev1 := (rev1 O).

Lemma dot_ext n v v' u u' : (forall i, i < n -> v i = v' i) -> (forall i, i < n -> u i = u' i) ->
  dot n v u = dot n v' u'.
Proof. induction n as [|n IH]; intros H H'; simpl; [reflexivity|].
  rewrite IH, (H n), (H' n) by auto with arith. reflexivity. Qed.
Lemma upd_other g j x i : i <> j -> upd g j x i = g i.
Proof. intros H. unfold Tape.upd. destruct (Nat.eqb_spec i j); [contradiction|reflexivity]. Qed.
Lemma upd_same g j x : upd g j x j = x.
Proof. unfold Tape.upd. rewrite Nat.eqb_refl. reflexivity. Qed.

Lemma dot_upd_l n v u j x : j < n -> dot n (upd v j x) u + v j * u j = dot n v u + x * u j.
Proof.
  induction n as [|n IH]; intros Hj; [lia|]. simpl.
  destruct (Nat.eq_dec n j) as [->|Hne].
  - rewrite upd_same. rewrite (dot_ext j (upd v j x) v u u); [ring| |reflexivity].
    intros i Hi. apply upd_other. lia.
  - rewrite upd_other by assumption. assert (Hj' : j < n) by lia. specialize (IH Hj').
    transitivity ((dot n (upd v j x) u + v j * u j) + v n * u n); [ring|]. rewrite IH. ring.
Qed.
Lemma dot_upd_r n v u j x : j < n -> dot n v (upd u j x) + v j * u j = dot n v u + v j * x.
Proof.
  induction n as [|n IH]; intros Hj; [lia|]. simpl.
  destruct (Nat.eq_dec n j) as [->|Hne].
  - rewrite upd_same. rewrite (dot_ext j v v (upd u j x) u); [ring|reflexivity|].
    intros i Hi. apply upd_other. lia.
  - rewrite upd_other by assumption. assert (Hj' : j < n) by lia. specialize (IH Hj').
    transitivity ((dot n v (upd u j x) + v j * u j) + v n * u n); [ring|]. rewrite IH. ring.
Qed.

Lemma fold_acc o g a0 : fold_left (fun a mi => a + fst mi * g (snd mi)) o a0 = a0 + rhs_val o g.
Proof. unfold Tape.rhs_val. revert a0. induction o as [|mi o IH]; intros a0; simpl; [ring|].
  rewrite IH, (IH (0 + _)). ring. Qed.
Lemma rhs_val_cons mi o g : rhs_val (mi :: o) g = fst mi * g (snd mi) + rhs_val o g.
Proof. unfold Tape.rhs_val at 1. simpl. rewrite fold_acc. ring. Qed.
Lemma rhs_val_nil g : rhs_val [] g = 0.
Proof. reflexivity. Qed.

Lemma dot_scatter n a o : forall v u, Forall (fun mi => snd mi < n) o ->
  dot n (scatter a o v) u = dot n v u + a * rhs_val o u.
Proof.
  induction o as [|mi o IH]; intros v u Hf.
  - unfold Tape.scatter; simpl. rewrite rhs_val_nil. ring.
  - inversion Hf as [|? ? Hlt Hf']; subst. change (scatter a (mi :: o) v)
      with (scatter a o (upd v (snd mi) (v (snd mi) + fst mi * a))).
    rewrite IH by assumption. rewrite rhs_val_cons.
    pose proof (dot_upd_l n v u (snd mi) (v (snd mi) + fst mi * a) Hlt) as E.
    transitivity ((dot n (upd v (snd mi) (v (snd mi) + fst mi * a)) u + v (snd mi) * u (snd mi))
                  + a * rhs_val o u + oneg O (v (snd mi) * u (snd mi))); [ring|].
    rewrite E. ring.
Qed.

(* scattering a zero adjoint changes nothing, pointwise: the shortcut is sound *)
Lemma scatter_zero o : forall g i, scatter 0 o g i = g i.
Proof.
  induction o as [|mi o IH]; intros g i; [reflexivity|].
  change (scatter 0 (mi :: o) g) with (scatter 0 o (upd g (snd mi) (g (snd mi) + fst mi * 0))).
  rewrite IH. unfold Tape.upd. destruct (Nat.eqb_spec i (snd mi)) as [->|]; [ring|reflexivity].
Qed.

(* rev1 with the shortcut equals rev1 without it, pointwise *)
Definition rev1_plain (s : stmt) (g : vec) : vec := scatter (g (lhs s)) (rhs s) (upd g (lhs s) 0).
Lemma rev1_shortcut s g i : rev1 s g i = rev1_plain s g i.
Proof.
  unfold Tape.rev1, rev1_plain. destruct (oeqb O (g (lhs s)) 0) eqn:E; [|reflexivity].
  apply eqb_true in E. rewrite E. symmetry. apply scatter_zero.
Qed.

Lemma adj1 n s v u : wf_stmt n s -> dot n (rev1 s v) u = dot n v (fwd1 s u).
Proof.
  intros [Hl Hf]. rewrite (dot_ext n (rev1 s v) (rev1_plain s v) u u);
    [|intros; apply rev1_shortcut|reflexivity].
  unfold rev1_plain, Tape.fwd1. rewrite dot_scatter by assumption.
  pose proof (dot_upd_l n v u (lhs s) 0 Hl) as E1.
  pose proof (dot_upd_r n v u (lhs s) (rhs_val (rhs s) u) Hl) as E2.
  transitivity ((dot n (upd v (lhs s) 0) u + v (lhs s) * u (lhs s))
                + v (lhs s) * rhs_val (rhs s) u + oneg O (v (lhs s) * u (lhs s))); [ring|].
  rewrite E1.
  transitivity ((dot n v (upd u (lhs s) (rhs_val (rhs s) u)) + v (lhs s) * u (lhs s))
                + oneg O (v (lhs s) * u (lhs s))); [|ring].
  rewrite E2. ring.
Qed.

Theorem adjoint_identity n t : Forall (wf_stmt n) t ->
  forall v u, dot n (rev_sweep O t v) u = dot n v (fwd_sweep O t u).
Proof.
  induction t as [|s t IH]; intros Hw v u; simpl; [reflexivity|].
  inversion Hw as [|? ? Hs Ht]; subst.
  rewrite adj1 by assumption. unfold fwd_sweep in IH. apply IH. assumption.
Qed.

(* dot products with unit vectors pick components *)
Lemma dot_unit_r n v k : k < n -> dot n v (unit_vec O k) = v k.
Proof.
  induction n as [|n IH]; intros Hk; [lia|]. simpl. unfold unit_vec at 2.
  destruct (Nat.eqb_spec n k) as [->|Hne].
  - rewrite (dot_ext k v v (unit_vec O k) (fun _ => 0)); [|reflexivity|].
    + assert (forall m, dot m v (fun _ => 0) = 0) as Z by (induction m as [|m IHm]; simpl; [reflexivity|rewrite IHm; ring]).
      rewrite Z. ring.
    + intros i Hi. unfold unit_vec. destruct (Nat.eqb_spec i k); [lia|reflexivity].
  - rewrite IH by lia. ring.
Qed.
Lemma dot_unit_l n u k : k < n -> dot n (unit_vec O k) u = u k.
Proof.
  induction n as [|n IH]; intros Hk; [lia|]. simpl. unfold unit_vec at 2.
  destruct (Nat.eqb_spec n k) as [->|Hne].
  - rewrite (dot_ext k (unit_vec O k) (fun _ => 0) u u); [| |reflexivity].
    + assert (forall m, dot m (fun _ => 0) u = 0) as Z by (induction m as [|m IHm]; simpl; [reflexivity|rewrite IHm; ring]).
      rewrite Z. ring.
    + intros i Hi. unfold unit_vec. destruct (Nat.eqb_spec i k); [lia|reflexivity].
  - rewrite IH by lia. ring.
Qed.

(* entrywise: the (d,i) entry obtained by an adjoint pass seeded at d equals the one obtained
   by a tangent pass seeded at i *)
Theorem reverse_entry_eq_forward_entry n t d i : Forall (wf_stmt n) t -> d < n -> i < n ->
  rev_sweep O t (unit_vec O d) i = fwd_sweep O t (unit_vec O i) d.
Proof.
  intros Hw Hd Hi. rewrite <- (dot_unit_r n _ i Hi), <- (dot_unit_l n _ d Hd). apply adjoint_identity. exact Hw.
Qed.

(* both sweeps respect pointwise equality of gradient vectors *)
Lemma rhs_val_ext o g g' : (forall j, g j = g' j) -> rhs_val o g = rhs_val o g'.
Proof. intros H. unfold Tape.rhs_val. generalize 0. induction o as [|mi o IH]; intros a; simpl; [reflexivity|].
  rewrite H. apply IH. Qed.
Lemma fwd1_ext s g g' : (forall j, g j = g' j) -> forall j, fwd1 s g j = fwd1 s g' j.
Proof. intros H j. unfold Tape.fwd1, Tape.upd. rewrite (rhs_val_ext _ _ _ H), H. reflexivity. Qed.
Lemma fwd_ext t : forall g g', (forall j, g j = g' j) -> forall j, fwd_sweep O t g j = fwd_sweep O t g' j.
Proof. induction t as [|s t IH]; intros g g' H j; simpl; [apply H|]. apply IH. apply fwd1_ext. exact H. Qed.
Lemma scatter_ext a o : forall g g', (forall j, g j = g' j) -> forall j, scatter a o g j = scatter a o g' j.
Proof. induction o as [|mi o IH]; intros g g' H j; [apply H|].
  change (scatter a (mi :: o) g) with (scatter a o (upd g (snd mi) (g (snd mi) + fst mi * a))).
  change (scatter a (mi :: o) g') with (scatter a o (upd g' (snd mi) (g' (snd mi) + fst mi * a))).
  apply IH. intros k. unfold Tape.upd. rewrite !H. reflexivity. Qed.
Lemma rev1_ext s g g' : (forall j, g j = g' j) -> forall j, rev1 s g j = rev1 s g' j.
Proof. intros H j. rewrite !rev1_shortcut. unfold rev1_plain. rewrite H. apply scatter_ext.
  intros k. unfold Tape.upd. rewrite H. reflexivity. Qed.
Lemma rev_ext t : forall g g', (forall j, g j = g' j) -> forall j, rev_sweep O t g j = rev_sweep O t g' j.
Proof. induction t as [|s t IH]; intros g g' H j; simpl; [apply H|]. apply rev1_ext. apply IH. exact H. Qed.
End Adj.
