(* the order facts assumed by MinimProofs.v hold for the real numbers (with the boolean comparisons of ExprReal.v) *)
From Coq Require Import Reals Lra.
From Adept Require Import Scalar RealOps.
Local Open Scope R_scope.
Lemma RO_le_total : forall a b : R, oleb RO a b = true \/ oleb RO b a = true.
Proof. intros a b. cbn. unfold Rleb. destruct (Rle_dec a b); [left; reflexivity|]. destruct (Rle_dec b a); [right; reflexivity|lra]. Qed.
Lemma RO_le_trans : forall a b c : R, oleb RO a b = true -> oleb RO b c = true -> oleb RO a c = true.
Proof. intros a b c. cbn. unfold Rleb. destruct (Rle_dec a b); [|discriminate]. destruct (Rle_dec b c); [|discriminate]. destruct (Rle_dec a c); [reflexivity|lra]. Qed.
Lemma RO_lt_le : forall a b : R, oltb RO a b = negb (oleb RO b a).
Proof. intros a b. cbn. unfold Rltb, Rleb. destruct (Rlt_dec a b); destruct (Rle_dec b a); try reflexivity; lra. Qed.
