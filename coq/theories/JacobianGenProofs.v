(* the stores and seeds translated from adept/jacobian.cpp are those of the hand model Jacobian.v *)
From Coq Require Import ZArith List Bool Lia.
From Adept Require Import JacobianDefs.
From AdeptGen Require Import Gen_Jacobian.
Import ListNotations.
Local Open Scope Z_scope.

Ltac site_tac :=
  unfold site_ok; cbn [s_routine s_unit s_cond s_outer s_inner s_addr s_src is_fwd fst snd];
  repeat split; try reflexivity;
  try (cbn [jeval model_addr]; rewrite ?Nat2Z.id; lia).
Lemma generated_sites_ok : Forall site_ok jacobian_sites.
Proof. unfold jacobian_sites. repeat (constructor; [site_tac|]). constructor. Qed.
Ltac seed_tac :=
  unfold seed_ok; cbn [d_routine d_inner d_idx is_fwd fst snd];
  split; [reflexivity|]; intros en; cbn [jeval]; rewrite <- ?Nat2Z.inj_add, ?Nat2Z.id; lia.
Lemma generated_seeds_ok : Forall seed_ok jacobian_seeds.
Proof. unfold jacobian_seeds. repeat (constructor; [seed_tac|]). constructor. Qed.
Lemma generated_sites_complete : sites_complete jacobian_sites jacobian_seeds = true.
Proof. vm_compute. reflexivity. Qed.

(* [model_addr] is the address formula of the hand model: every write of a forward / reverse block of Jacobian.v *)
From Adept Require Import Scalar Tape Jacobian.
Section Link.
Context {T : Type}.
Lemma fwd_block_addr deps (g : nat -> nat -> T) i0 bs doff ioff w : In w (fwd_block_writes deps g i0 bs doff ioff) ->
  exists idep i, (i < bs)%nat /\ w_dep w = idep /\ w_indep w = (i0 + i)%nat /\ w_addr w = model_addr true (ioff =? 1) idep i0 i doff ioff.
Proof.
  unfold fwd_block_writes. intros H. apply in_flat_map in H. destruct H as (idep & _ & H).
  apply in_map_iff in H. destruct H as (i & <- & Hi). apply in_seq in Hi.
  exists idep, i. cbn [w_dep w_indep w_addr]. split; [lia|]. split; [reflexivity|]. split; [reflexivity|]. unfold model_addr. destruct (ioff =? 1); reflexivity.
Qed.
Lemma rev_block_addr indeps (g : nat -> nat -> T) i0 bs doff ioff w : In w (rev_block_writes indeps g i0 bs doff ioff) ->
  exists iindep i, (i < bs)%nat /\ w_indep w = iindep /\ w_dep w = (i0 + i)%nat /\ w_addr w = model_addr false (doff =? 1) iindep i0 i doff ioff.
Proof.
  unfold rev_block_writes. intros H. apply in_flat_map in H. destruct H as (iindep & _ & H).
  apply in_map_iff in H. destruct H as (i & <- & Hi). apply in_seq in Hi.
  exists iindep, i. cbn [w_dep w_indep w_addr]. split; [lia|]. split; [reflexivity|]. split; [reflexivity|]. unfold model_addr. destruct (doff =? 1); reflexivity.
Qed.
End Link.
