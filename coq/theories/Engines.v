(* Special-matrix semantics built on the GENERATED engine functions (AdeptGen.Gen_Engines, translated
   from include/adept/SpecialMatrix.h on every run).  [dense] is the dense matrix a special matrix
   stands for; the rest mirrors how SpecialMatrix traverses, assigns and re-views its data. *)
From Coq Require Import ZArith List Bool.
From AdeptGen Require Import Gen_Engines.
Import ListNotations.
Local Open Scope Z_scope.

Section Eng.
Context {T : Type} (zero : T).
Variable e : engine.
Variables L U : Z.            (* band parameters *)

(* value of element (i,j) as operator()(i,j) const / get_scalar returns it *)
Definition dense (data : Z -> T) (off i j : Z) : T :=
  if stored e L U i j then data (index e L U i j off) else zero.

(* reading row i inside an expression: set_location_ (index(i,0) + set_extras), then dim times
   value_at_location / advance_location_ (SpecialMatrix.h:1684-1716) *)
Fixpoint row_read (n : nat) (data : Z -> T) (off loc e1 e2 : Z) : list T :=
  match n with
  | O => []
  | S n' => (if guard e L U loc e1 e2 then data loc else zero)
            :: row_read n' data off (loc + row_offset e L U off loc e1) e1 e2
  end.
Definition read_row (data : Z -> T) (dim off i : Z) : list T :=
  row_read (Z.to_nat dim) data off (index e L U i 0 off) (extra1 e L U i off) (extra2 e L U i off).

(* assignment from an expression (assign_expression_, SpecialMatrix.h:1786-1803): for row i the
   locations written and the columns they receive *)
Definition assign_row_targets (dim off i : Z) : list (Z * Z) :=   (* (column j, location) *)
  let js := rr_j_start e L U i dim off in
  map (fun k => (js + Z.of_nat k, rr_index_start e L U i dim off + Z.of_nat k * rr_index_stride e L U i dim off))
      (seq 0 (Z.to_nat (rr_j_end e L U i dim off - js))).

(* diag_vector(k): base offset and stride of the returned vector (SpecialMatrix.h:1309-1327) *)
Definition diag_base (dim off k : Z) : Z := if 0 <=? k then upper_offset e L U dim off k else lower_offset e L U dim off k.
Definition diag_len (dim k : Z) : Z := if 0 <=? k then dim - k else dim + k.
(* submatrix_on_diagonal(a,b): data pointer moves by (off+1)*a, same offset *)
Definition sub_base (off a : Z) : Z := (off + 1) * a.
End Eng.
