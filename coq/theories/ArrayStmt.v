(* Element-wise statements on active arrays (Array.h:3026-3107 assign_expression_ for active targets,
   FixedArray.h copies of the same loops): for every element, value_and_gradient of the expression at that
   location, then push_lhs of the target element.  The specification beside it: the scalar program the
   statement denotes, element by element. *)
From Coq Require Import ZArith List Bool.
From Adept Require Import Scalar ExprDefs Expr Tape Program.
Import ListNotations.

Section ArrayStmt.
Context {T : Type} (F : FOps T).
Let O := fbase F.

(* an array operand: where its elements' gradient indices start (element i has base + i * step: views with any
   stride, reversed views have step < 0 and base at the last element), or passive data *)
Inductive aleaf := LAct (base : nat) (step : nat) | LPas (data : nat -> T).
Inductive aexp :=
| AArr (l : aleaf)              (* array operand, same element number as the target *)
| AVar (x : nat)                (* active scalar (broadcast) *)
| AConst (c : T)
| AUn (f : fname) (a : aexp)
| ABin (k : bkind) (l r : aexp).

Definition elem (base step i : nat) : nat := base + i * step.
Fixpoint ainst (vals : nat -> T) (e : aexp) (i : nat) : expr (T:=T) :=
  match e with
  | AArr (LAct b st) => XArr true (Z.of_nat (elem b st i)) (vals (elem b st i))
  | AArr (LPas d) => XArr false (-1) (d i)
  | AVar x => XAct (Z.of_nat x) (vals x)
  | AConst c => XPas c
  | AUn f a => XUn f (ainst vals a i)
  | ABin k l r => XBin k (ainst vals l i) (ainst vals r i)
  end.
(* the scalar expression element i denotes *)
Fixpoint to_scalar (e : aexp) (i : nat) : pexpr (T:=T) :=
  match e with
  | AArr (LAct b st) => PVar (elem b st i)
  | AArr (LPas d) => PConst (d i)
  | AVar x => PVar x
  | AConst c => PConst c
  | AUn f a => PUn f (to_scalar a i)
  | ABin k l r => PBin k (to_scalar l i) (to_scalar r i)
  end.

(* target = e  for elements 0 .. n-1 of a target whose element i has gradient index tb + i * ts *)
Definition aexec_elem (tb ts : nat) (e : aexp) (st : (nat -> T) * tape (T:=T)) (i : nat) : (nat -> T) * tape :=
  let '(vals, tp) := st in
  let '(v, ops) := value_and_gradient F (ainst vals e i) in
  (upd vals (elem tb ts i) v, tp ++ [mkStmt (elem tb ts i) (conv_ops ops)]).
Definition aexec (tb ts n : nat) (e : aexp) (vals0 : nat -> T) : (nat -> T) * tape :=
  fold_left (aexec_elem tb ts e) (seq 0 n) (vals0, []).
(* what it denotes *)
Definition denoted (tb ts n : nat) (e : aexp) : list (pstmt (T:=T)) := map (fun i => PSetE (elem tb ts i) (to_scalar e i)) (seq 0 n).
End ArrayStmt.
