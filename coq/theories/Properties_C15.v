(* C15 — matrix multiplication returns the true product for every operand form.
   This file holds only the property theorems; each is closed by [exact] of a lemma of MatmulProofs.v and followed by
   Print Assumptions.
   Model: Matmul.v (hand model of the reference ?gemm / ?gemv, of the row-major mapping of cppblas.cpp and of the choice
   of order, transposition and leading dimension in matmul.h; tie H: ./check C15 prints the strides of every dense
   operand pair of its sweep and compares the product BLAS returned with the extracted model on the same memory image).
   _partial: symmetric, triangular and band kernels (?symm ?symv ?gbmv with triangle and band-start selection), the
   copy taken for operands strided both ways or with negative strides, and expression / fixed-size front ends are not in
   the model: the check compares each of those operand forms with the triple loop over element values (exact integer
   data, AddressSanitizer), which is a test.  Modelled, not verified: libblas computes what Matmul.f_gemm_cell /
   f_gemv_cell say. *)
From Coq Require Import ZArith List Ring_theory.
From Adept Require Import Scalar Matmul MatmulProofs Band BandProofs.
From AdeptGen Require Import Gen_Band Gen_Engines.
Import ListNotations.
Local Open Scope Z_scope.

Section AnyRing.
Context {T : Type} (O : Ops T).
Hypothesis Rth : ring_theory (o0 O) (o1 O) (oadd O) (omul O) (osub O) (oneg O) (@eq T).

(* matrix x matrix: for every pair of operands that are row- or column-contiguous in any combination (row-major,
   column-major, transposed, sliced, padded, with any leading dimension), every extent and every memory content, the cell
   computed for (i,j) is the defining sum over the operands' own elements, and it is stored at (i,j) of the answer *)
Theorem C15_dense_matrix_matrix_partial : forall mem (l r : mview) i j v, adept_gemm_cell O mem l r i j = Some v ->
  v = zsum O (md1 l) (fun q => omul O (melem mem l i q) (melem mem r q j)).
Proof. exact (gemm_correct O Rth). Qed.
Theorem C15_result_placement : forall c0 cs i j, adept_gemm_addr c0 cs i j = c0 + i * cs + j.
Proof. exact gemm_addr. Qed.
(* matrix x vector (vector x matrix is the same routine on the transposed matrix), any positive vector increment *)
Theorem C15_dense_matrix_vector_partial : forall mem (l : mview) (x : vview) i v, adept_gemv_cell O mem l x i = Some v ->
  v = zsum O (md1 l) (fun q => omul O (melem mem l i q) (velem mem x q)).
Proof. exact (gemv_correct O). Qed.
(* active operands: the statement recorded for C(i,j) is the differential of its defining sum, for any strides of the
   operands (the gradient indices follow the same strides as the data) *)
Theorem C15_derivative_statement_partial : forall mem (l r : mview) lact ract lidx ridx i j g,
  ops_val O (gemm_statement mem l r lact ract lidx ridx i j) g =
  oadd O (if lact then zsum O (md0 r) (fun q => omul O (melem mem r q j) (g (lidx + i * ms0 l + q * ms1 l))) else o0 O)
         (if ract then zsum O (md0 r) (fun q => omul O (melem mem l i q) (g (ridx + q * ms0 r + j * ms1 r))) else o0 O).
Proof. exact (statement_is_differential O Rth). Qed.
(* band matrix x vector through ?gbmv: with the start pointer, leading dimension, (KL,KU) and wrapper arguments GENERATED from
   matmul.h / cppblas.cpp on every run (Gen_Band.v) and the engine layout generated from SpecialMatrix.h (Gen_Engines.v), row
   i of the result is the defining sum over the stored band, for both storage orders, every dimension and every L, U >= 0 *)
Theorem C15_band_matrix_vector_partial : forall (row_major : bool) (L U dim : Z) (mem : Z -> T) (left_ptr x0 incx i : Z),
  0 <= L -> 0 <= U -> 0 <= i < dim ->
  adept_band_mv O row_major L U dim mem left_ptr (pack_offset (if row_major then BandR else BandC) L U dim) x0 incx i
  = band_mv_spec O row_major L U dim mem left_ptr (pack_offset (if row_major then BandR else BandC) L U dim) x0 incx i.
Proof. exact (band_mv_correct O). Qed.

(* band matrix x dense matrix (one ?gbmv per column of the right operand, start pointers and increments translated from
   matmul_band): element (i, c) is the defining sum over the stored band, written at y0 + i*aoff0 + c*aoff1 *)
Theorem C15_band_matrix_matrix_partial : forall (row_major : bool) (L U dim : Z) (mem : Z -> T) (left_ptr x0 roff0 roff1 i c : Z),
  (0 <= L)%Z -> (0 <= U)%Z -> (0 <= i < dim)%Z ->
  adept_band_mm O row_major L U dim mem left_ptr (pack_offset (if row_major then BandR else BandC) L U dim) x0 roff0 roff1 i c
  = band_mm_spec O row_major L U dim mem left_ptr (pack_offset (if row_major then BandR else BandC) L U dim) x0 roff0 roff1 i c.
Proof. exact (band_mm_correct O). Qed.
Theorem C15_band_matrix_matrix_result_address : forall y0 aoff0 aoff1 i c, band_mm_result_addr y0 aoff0 aoff1 i c = (y0 + i * aoff0 + c * aoff1)%Z.
Proof. exact band_mm_result_address. Qed.
(* symmetric matrix (either storage orientation) x vector through ?symv: the triangle letter chosen in matmul_symmetric and the
   exchange made by the wrapper for row-major calls (both GENERATED from the sources) select exactly the triangle the
   symmetric engine stores; row i of the result is the full defining sum, for every n and every engine offset *)
Theorem C15_symmetric_matrix_vector_partial : forall (row_lower_col_upper : bool) (n : Z) (mem : Z -> T) (left_ptr left_offset x0 incx i : Z),
  adept_symm_mv O row_lower_col_upper n mem left_ptr left_offset x0 incx i = symm_mv_spec O row_lower_col_upper n mem left_ptr left_offset x0 incx i.
Proof. exact (symm_mv_correct O). Qed.
(* symmetric matrix (either orientation) x matrix (row- or column-contiguous) through ?symm: cell (i,j) is the defining sum and
   is stored at (i,j) of the answer in the answer's own order; settles the "FIX! CHECK ROW MAJOR VERSION IS RIGHT" of
   cppblas.cpp (it is right) *)
Theorem C15_symmetric_matrix_matrix_partial : forall (row_lower right_row : bool) (M N : Z) (mem : Z -> T) (left_ptr left_offset b0 rs i j : Z),
  adept_symm_mm O row_lower right_row M N mem left_ptr left_offset b0 rs i j = symm_mm_spec O row_lower right_row M mem left_ptr left_offset b0 rs i j.
Proof. exact (symm_mm_correct O Rth). Qed.
Theorem C15_symmetric_result_placement : forall (right_row : bool) (c0 cs i j : Z),
  cppblas_symm_addr right_row c0 cs i j = if right_row then c0 + i * cs + j else c0 + i + j * cs.
Proof. exact symm_mm_addr. Qed.
(* active right-hand vector: the statement recorded for row i of (band matrix) x vector - window of columns, multiplier address
   and stride, gradient index and stride all GENERATED from matmul_band - is the differential of the defining sum over the
   engine's stored window, for any stride of the vector *)
Theorem C15_band_derivative_statement_partial : forall (row_major : bool) (L U dim : Z) (mem : Z -> T) (left_ptr off right_index incx i : Z) (g : Z -> T),
  ops_val O (band_statement row_major L U dim mem left_ptr off right_index incx i) g =
  zsum O (band_j_end i U dim - band_j_start i L)
       (fun q => omul O (mem (left_ptr + index (if row_major then BandR else BandC) L U i (band_j_start i L + q) off))
                        (g (right_index + (band_j_start i L + q) * incx))).
Proof. exact (band_statement_is_differential O). Qed.
End AnyRing.
Print Assumptions C15_band_derivative_statement_partial.
Print Assumptions C15_symmetric_matrix_matrix_partial.
Print Assumptions C15_symmetric_result_placement.
Print Assumptions C15_symmetric_matrix_vector_partial.
Print Assumptions C15_band_matrix_vector_partial.
Print Assumptions C15_band_matrix_matrix_partial.
Print Assumptions C15_band_matrix_matrix_result_address.
Print Assumptions C15_dense_matrix_matrix_partial.
Print Assumptions C15_result_placement.
Print Assumptions C15_dense_matrix_vector_partial.
Print Assumptions C15_derivative_statement_partial.

(* non-vacuity: a 2x2 row-major left operand at address 0 times a column-major right operand at address 10 *)
Example C15_example :
  let mem := fun a => match a with 0 => 1 | 1 => 2 | 2 => 3 | 3 => 4 | 10 => 5 | 11 => 6 | 12 => 7 | 13 => 8 | _ => 0 end in
  adept_gemm_cell ZOps mem (mkMV 0 2 1 2 2) (mkMV 10 1 2 2 2) 0 1 = Some (1 * 7 + 2 * 8) /\
  adept_gemm_cell ZOps mem (mkMV 0 2 1 2 2) (mkMV 10 1 2 2 2) 1 0 = Some (3 * 5 + 4 * 6) /\
  adept_gemm_cell ZOps mem (mkMV 0 3 2 2 2) (mkMV 10 1 2 2 2) 0 0 = None.
Proof. vm_compute. repeat split. Qed.
