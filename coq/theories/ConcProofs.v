(* C14: with add_link = one atomic increment and remove_link = check, then one atomic decrement whose result decides
   deletion, every interleaving of any number of threads frees the shared Storage exactly once, when and only when the
   last holder has gone, and never touches it afterwards.  C12: threads that touch only their own state compute, under
   every schedule, what they compute alone; a plain counter incremented by two threads loses updates. *)
From Coq Require Import ZArith List Bool Lia Arith.
From Adept Require Import Conc.
Import ListNotations.
Local Open Scope Z_scope.
Local Arguments sum_held : simpl never.

(* ---- lists *)
Lemma set_nth_length {A} k (x : A) l : length (set_nth k x l) = length l.
Proof. revert k. induction l as [|h t IH]; intros k; destruct k; cbn; auto. Qed.
Lemma nth_set_nth_same {A} k (x d : A) l : (k < length l)%nat -> nth k (set_nth k x l) d = x.
Proof. revert k. induction l as [|h t IH]; intros k H; destruct k; cbn in *; try lia; auto. apply IH. lia. Qed.
Lemma nth_set_nth_other {A} k j (x d : A) l : j <> k -> nth j (set_nth k x l) d = nth j l d.
Proof. revert k j. induction l as [|h t IH]; intros k j H; destruct k; destruct j; cbn; try reflexivity; try congruence. apply IH. congruence. Qed.
Lemma sum_held_cons h r : sum_held (h :: r) = held h + sum_held r.
Proof. reflexivity. Qed.
Lemma sum_held_set_nth k t l : (k < length l)%nat -> sum_held (set_nth k t l) = sum_held l - held (nth k l dead_thr) + held t.
Proof.
  revert k. induction l as [|h r IH]; intros k H; [cbn in H; lia|]. destruct k; cbn [set_nth nth]; rewrite !sum_held_cons; [lia|].
  rewrite IH by (cbn in H; lia). lia.
Qed.
Lemma Forall_set_nth {A} (P : A -> Prop) k x l : Forall P l -> P x -> Forall P (set_nth k x l).
Proof. revert k. induction l as [|h t IH]; intros k Hl Hx; destruct k; cbn; inversion Hl; subst; constructor; auto. Qed.
Lemma held_le_sum l k : Forall (fun t => 0 <= held t) l -> held (nth k l dead_thr) <= sum_held l.
Proof.
  assert (forall r, Forall (fun t => 0 <= held t) r -> 0 <= sum_held r) as Hnn.
  { induction r as [|a r IHr]; intros Hr; [unfold sum_held; cbn; lia|]. rewrite sum_held_cons. inversion Hr; subst. specialize (IHr H2). lia. }
  revert k. induction l as [|h t IH]; intros k H; destruct k; cbn [nth]; try (unfold sum_held; cbn; lia); rewrite sum_held_cons; inversion H; subst.
  - specialize (Hnn t H3). lia.
  - specialize (IH k H3). lia.
Qed.
Lemma nth_beyond k (l : list thr) : (length l <= k)%nat -> nth k l dead_thr = dead_thr.
Proof. apply nth_overflow. Qed.

(* ---- the reference count *)
Definition ADD : list mstep := [MRmw 1].
Definition REM : list mstep := [MCheckNonZero; MRmwDeleteIfZero (-1)].
Definition thr_ok (t : thr) : Prop := 0 <= held t /\ (pend t = [] \/ (pend t = [MRmwDeleteIfZero (-1)] /\ 0 < held t)).
Definition RInv (st : rstate) : Prop :=
  bad st = 0 /\ (freed st = 0 \/ freed st = 1) /\
  (freed st = 0 -> links st = sum_held (thrs st) /\ 0 < links st) /\
  (freed st = 1 -> sum_held (thrs st) = 0 /\ links st = 0) /\
  Forall thr_ok (thrs st).

Lemma thr_ok_nonneg l : Forall thr_ok l -> Forall (fun t => 0 <= held t) l.
Proof. intros H. eapply Forall_impl; [|exact H]. intros t [H0 _]. exact H0. Qed.

Lemma rstep_inv st k : RInv st -> RInv (rstep ADD REM st k).
Proof.
  intros HI. assert (HI' := HI). destruct HI as (Hb & Hf & H0 & H1 & Hok). unfold rstep.
  destruct (Nat.lt_ge_cases k (length (thrs st))) as [Hk|Hk]; [|rewrite nth_beyond by exact Hk; cbn; exact HI'].
  set (t := nth k (thrs st) dead_thr).
  assert (thr_ok t) as [Hh Hp] by (rewrite Forall_forall in Hok; apply Hok, nth_In, Hk).
  pose proof (held_le_sum (thrs st) k (thr_ok_nonneg _ Hok)) as Hle. fold t in Hle.
  (* a thread that holds a link keeps the Storage alive *)
  assert (0 < held t -> freed st = 0) as Halive by (intros Hpos; destruct Hf as [E|E]; [exact E|destruct (H1 E) as [E1 _]; lia]).
  destruct Hp as [Hp|[Hp Hpos]]; rewrite Hp.
  - destruct (prog t) as [|o pr] eqn:Epr; [exact HI'|].
    destruct (Z.ltb_spec 0 (held t)) as [Hpos|Hnp]; [|exact HI'].
    specialize (Halive Hpos). destruct (H0 Halive) as [Hl Hlp].
    destruct o; cbn [ADD REM micro]; rewrite Halive; cbn.
    + (* add_link *)
      unfold RInv; cbn. refine (conj _ (conj _ (conj _ (conj _ _)))).
      * lia.
      * lia.
      * intros _. rewrite sum_held_set_nth by exact Hk. fold t. cbn. lia.
      * intros E; lia.
      * apply Forall_set_nth; [exact Hok|]. split; cbn; [lia|left; reflexivity].
    + (* remove_link: the check *)
      destruct (Z.eqb_spec (links st) 0) as [E|NE]; [lia|].
      unfold RInv; cbn. refine (conj _ (conj _ (conj _ (conj _ _)))).
      * lia.
      * lia.
      * intros _. rewrite sum_held_set_nth by exact Hk. fold t. cbn. lia.
      * intros E; lia.
      * apply Forall_set_nth; [exact Hok|]. split; cbn; [lia|right; split; [reflexivity|exact Hpos]].
  - (* remove_link: the atomic decrement *)
    specialize (Halive Hpos). destruct (H0 Halive) as [Hl Hlp]. cbn [micro]. rewrite Halive. cbn.
    assert (sum_held (set_nth k (mkThr (prog t) [] (held t + -1)) (thrs st)) = sum_held (thrs st) - 1) as Hs
      by (rewrite sum_held_set_nth by exact Hk; fold t; cbn; lia).
    destruct (Z.eqb_spec (links st + -1) 0) as [E|NE].
    + unfold RInv; cbn.
      match goal with |- context [sum_held ?x] => assert (sum_held x = sum_held (thrs st) - 1) as Hs' by (rewrite sum_held_set_nth by exact Hk; fold t; cbn; lia) end.
      refine (conj _ (conj _ (conj _ (conj _ _)))).
      * lia.
      * lia.
      * intros E'; lia.
      * intros _. lia.
      * apply Forall_set_nth; [exact Hok|]. split; cbn; [lia|left; reflexivity].
    + unfold RInv; cbn.
      match goal with |- context [sum_held ?x] => assert (sum_held x = sum_held (thrs st) - 1) as Hs' by (rewrite sum_held_set_nth by exact Hk; fold t; cbn; lia) end.
      refine (conj _ (conj _ (conj _ (conj _ _)))).
      * lia.
      * lia.
      * intros _. lia.
      * intros E'; lia.
      * apply Forall_set_nth; [exact Hok|]. split; cbn; [lia|left; reflexivity].
Qed.
Lemma rrun_inv sched : forall st, RInv st -> RInv (rrun ADD REM sched st).
Proof. induction sched as [|k s IH]; intros st H; [exact H|]. cbn. apply IH, rstep_inv, H. Qed.

Theorem refcount_every_interleaving l sched : Forall (fun t => 0 <= held t /\ pend t = []) l -> 0 < sum_held l ->
  let st := rrun ADD REM sched (rinit l) in
  bad st = 0 /\ (freed st = 0 \/ freed st = 1) /\ (freed st = 1 <-> sum_held (thrs st) = 0) /\ (freed st = 0 -> links st = sum_held (thrs st)).
Proof.
  intros Hl Hs.
  assert (RInv (rinit l)) as Hi.
  { unfold RInv, rinit; cbn. refine (conj _ (conj _ (conj _ (conj _ _)))).
    - reflexivity.
    - left; reflexivity.
    - intros _. split; [reflexivity|exact Hs].
    - intros E; lia.
    - eapply Forall_impl; [|exact Hl]. intros t [H0 Hp]. split; [exact H0|left; exact Hp]. }
  destruct (rrun_inv sched _ Hi) as (Hb & Hf & H0 & H1 & Hok). cbn zeta.
  repeat split; try assumption.
  - intros E. apply H1. exact E.
  - intros E. destruct Hf as [F|F]; [destruct (H0 F) as [Hq Hp]; lia|exact F].
  - intros E. apply H0. exact E.
Qed.

(* soft links perform no step on the count: a program without operations leaves the Storage untouched *)
Theorem no_operations_no_steps add rem l sched : Forall (fun t => prog t = [] /\ pend t = []) l -> rrun add rem sched (rinit l) = rinit l.
Proof.
  intros H. induction sched as [|k s IH]; [reflexivity|]. cbn. replace (rstep add rem (rinit l) k) with (rinit l); [exact IH|].
  unfold rstep. destruct (Nat.lt_ge_cases k (length l)) as [Hk|Hk].
  - assert (prog (nth k (thrs (rinit l)) dead_thr) = [] /\ pend (nth k (thrs (rinit l)) dead_thr) = []) as [E1 E2] by (cbn; rewrite Forall_forall in H; apply H, nth_In, Hk).
    rewrite E2, E1. reflexivity.
  - cbn [thrs rinit]. rewrite nth_beyond by exact Hk. reflexivity.
Qed.

(* ---- threads on private state *)
Section PrivateProofs.
Context {L Op : Type} (lstep : L -> Op -> L).
Notation pthr := (pthr (L:=L) (Op:=Op)).
Lemma nth_error_set_nth_same {A} k (x : A) l : (k < length l)%nat -> nth_error (set_nth k x l) k = Some x.
Proof. revert k. induction l as [|h t IH]; intros k H; destruct k; cbn in *; try lia; [reflexivity|]. apply IH. lia. Qed.
Lemma nth_error_set_nth_other {A} k j (x : A) l : j <> k -> nth_error (set_nth k x l) j = nth_error l j.
Proof. revert k j. induction l as [|h t IH]; intros k j H; destruct k; destruct j; cbn; try reflexivity; try congruence. apply IH. congruence. Qed.
Lemma pstep1_self (ts : list pthr) k t : nth_error ts k = Some t ->
  nth_error (pstep1 lstep ts k) k = Some (match pprog t with o :: r => mkPT r (lstep (plocal t) o) | [] => t end).
Proof.
  intros H. unfold pstep1. rewrite H. destruct (pprog t) as [|o r]; [exact H|].
  apply nth_error_set_nth_same. apply nth_error_Some. congruence.
Qed.
Lemma pstep1_other (ts : list pthr) j k : j <> k -> nth_error (pstep1 lstep ts j) k = nth_error ts k.
Proof.
  intros H. unfold pstep1. destruct (nth_error ts j) as [t|]; [|reflexivity]. destruct (pprog t); [reflexivity|]. apply nth_error_set_nth_other. congruence.
Qed.
(* whatever the schedule, thread k has executed a prefix of its own program on its own state, as if alone *)
Theorem private_noninterference sched : forall (ts : list pthr) k t, nth_error ts k = Some t ->
  exists t', nth_error (prun_sched lstep sched ts) k = Some t' /\
    plocal t' = fold_left lstep (firstn (count_occ Nat.eq_dec sched k) (pprog t)) (plocal t) /\
    pprog t' = skipn (count_occ Nat.eq_dec sched k) (pprog t).
Proof.
  induction sched as [|j s IH]; intros ts k t Hk.
  - exists t. cbn. split; [exact Hk|split; reflexivity].
  - cbn [prun_sched fold_left count_occ]. destruct (Nat.eq_dec j k) as [->|Hne].
    + pose proof (pstep1_self ts k t Hk) as H1. destruct (pprog t) as [|o r] eqn:Ep.
      * destruct (IH _ k t H1) as (t' & A & B & C'). exists t'. split; [exact A|]. rewrite B, C', Ep.
        destruct (count_occ Nat.eq_dec s k); cbn; split; reflexivity.
      * destruct (IH _ k _ H1) as (t' & A & B & C'). exists t'. split; [exact A|]. rewrite B, C'. cbn. split; reflexivity.
    + rewrite <- (pstep1_other ts j k Hne) in Hk. exact (IH _ k t Hk).
Qed.
(* in particular: once scheduled often enough, its final state is the one of its solo run *)
Corollary private_complete sched (ts : list pthr) k t : nth_error ts k = Some t -> (length (pprog t) <= count_occ Nat.eq_dec sched k)%nat ->
  exists t', nth_error (prun_sched lstep sched ts) k = Some t' /\ plocal t' = solo lstep t /\ pprog t' = [].
Proof.
  intros Hk Hn. destruct (private_noninterference sched ts k t Hk) as (t' & A & B & C'). exists t'. split; [exact A|].
  rewrite B, C', firstn_all2, skipn_all2 by exact Hn. split; reflexivity.
Qed.
End PrivateProofs.

(* ---- the plain counter: a schedule that loses an update, through a state in which two threads race *)
Definition two_incrementers : cstate := mkC 0 [mkCT [CLoad; CStoreInc] 0; mkCT [CLoad; CStoreInc] 0].
Theorem plain_counter_loses_update :
  cval (crun [0; 1; 0; 1]%nat two_incrementers) = 1 /\ racy (crun [0; 1]%nat two_incrementers) /\
  cval (crun [0; 0; 1; 1]%nat two_incrementers) = 2.
Proof.
  split; [reflexivity|]. split; [|reflexivity].
  exists 0%nat, 1%nat, (mkCT [CStoreInc] 0), (mkCT [CStoreInc] 0). repeat split; try discriminate; try reflexivity.
  exists []. reflexivity.
Qed.

(* ---- the atomic counter: under every schedule, value + increments still to do is constant; when all threads are done
   the counter has counted every increment *)
Lemma todo_total_set_nth k m l n : nth_error l k = Some n -> todo_total (set_nth k m l) = todo_total l - Z.of_nat n + Z.of_nat m.
Proof.
  revert k. induction l as [|h t IH]; intros k H; destruct k; cbn in H; try discriminate.
  - inversion H; subst. unfold todo_total. cbn. lia.
  - unfold todo_total in *. cbn [set_nth fold_right]. rewrite (IH k H). lia.
Qed.
Theorem atomic_counter_exact sched : forall st, fst (arun sched st) + todo_total (snd (arun sched st)) = fst st + todo_total (snd st).
Proof.
  induction sched as [|k s IH]; intros st; [reflexivity|]. cbn [arun fold_left]. fold (arun s (astep1 st k)). rewrite IH.
  unfold astep1. destruct (nth_error (snd st) k) as [[|m]|] eqn:E; try reflexivity. cbn [fst snd].
  rewrite (todo_total_set_nth k m (snd st) (S m) E). lia.
Qed.
