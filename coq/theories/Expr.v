(* The expression-template protocol, executed on the rule tables of Gen_Ops.v:
   value_at_location_store_ (fills the scratch vector), value_stored_ (reads it back),
   calc_gradient_ (pushes multiplier / gradient-index pairs), with the MyArrayNum / MyScratchNum arithmetic of
   the source.  Specification beside it: plain recursive value and tangent (dual-number evaluation). *)
From Coq Require Import ZArith List Bool.
From Adept Require Import Scalar ExprDefs.
From AdeptGen Require Import Gen_Ops.
Import ListNotations.
Local Open Scope Z_scope.

Record FOps (T : Type) := mkFOps { fbase : Ops T; f1 : fname -> T -> T; f2 : fname -> T -> T -> T; flit : Z -> Z -> T }.
Arguments fbase {T}. Arguments f1 {T}. Arguments f2 {T}. Arguments flit {T}.

Section Expr.
Context {T : Type} (F : FOps T).
Let O := fbase F.
Notation "a +' b" := (oadd O a b) (at level 50, left associativity).
Notation "a *' b" := (omul O a b) (at level 40, left associativity).

Inductive expr :=
| XAct (gi : Z) (v : T)                  (* active scalar (Active<T>, ActiveReference) *)
| XArr (act : bool) (gi : Z) (v : T)     (* element of an array operand: value and gradient index found at loc[array number] *)
| XPas (v : T)                           (* passive scalar *)
| XUn (f : fname) (a : expr)
| XBin (k : bkind) (l r : expr).

Fixpoint is_active (e : expr) : bool :=
  match e with XAct _ _ => true | XArr a _ _ => a | XPas _ => false | XUn _ a => is_active a | XBin _ l r => is_active l || is_active r end.
Fixpoint n_arrays (e : expr) : Z :=
  match e with XArr _ _ _ => 1 | XUn _ a => n_arrays a | XBin _ l r => n_arrays l + n_arrays r | _ => 0 end.
Definition eff_sr (k : bkind) (l r : expr) : Z := if is_active l || is_active r then p_store_result (policy_of k) else 0.
Fixpoint n_scratch (e : expr) : Z :=
  match e with XUn _ a => 1 + n_scratch a | XBin k l r => eff_sr k l r + n_scratch l + n_scratch r | _ => 0 end.
Fixpoint n_active (e : expr) : Z :=
  match e with XAct _ _ => 1 | XArr a _ _ => if a then 1 else 0 | XPas _ => 0 | XUn _ a => n_active a | XBin _ l r => n_active l + n_active r end.

(* the arrays of the whole statement, in array-number order: (value at the current location, gradient index) *)
Fixpoint arrays_of (e : expr) : list (T * Z) :=
  match e with XArr _ gi v => [(v, gi)] | XUn _ a => arrays_of a | XBin _ l r => arrays_of l ++ arrays_of r | _ => [] end.
Definition arr_at (arrs : list (T * Z)) (a : Z) : T * Z := nth (Z.to_nat a) arrs (o0 O, -1).

Definition scratch := Z -> T.
Definition supd (s : scratch) (k : Z) (x : T) : scratch := fun j => if j =? k then x else s j.

Definition a_of (a : aidx) (A nLa : Z) : Z := A + a_nL a * nLa.
Definition s_of (i : sidx) (S nLs sr : Z) : Z := S + s_nL i * nLs + s_sr i * sr + s_k i.

(* value of a binary policy; with store_result = 2 the auxiliary value too *)
Definition bop (k : bkind) (x y : T) : T :=
  match k with
  | KAdd => x +' y | KSub => osub O x y | KMul => x *' y | KDiv => odiv O x y
  | KPow => f2 F F_pow x y | KAtan2 => f2 F F_atan2 x y
  | KMax => if oltb O x y then y else x | KMin => if oltb O x y then x else y
  end.
Definition bop_store (k : bkind) (x y : T) : T * T :=
  match k with
  | KDiv => let i := odiv O (o1 O) y in (x *' i, i)
  | KAtan2 => (f2 F F_atan2 x y, odiv O (o1 O) (x *' x +' y *' y))
  | _ => (bop k x y, o0 O)
  end.

(* value_at_location_<A> : no scratch *)
Fixpoint value_at (arrs : list (T * Z)) (e : expr) (A : Z) : T :=
  match e with
  | XAct _ v => v | XPas v => v | XArr _ _ _ => fst (arr_at arrs A)
  | XUn f a => f1 F f (value_at arrs a A)
  | XBin k l r => bop k (value_at arrs l A) (value_at arrs r (a_of (n_value_right nodes) A (n_arrays l)))
  end.

Fixpoint value_store (arrs : list (T * Z)) (e : expr) (A S : Z) (scr : scratch) : T * scratch :=
  match e with
  | XAct _ v => (v, scr) | XPas v => (v, scr) | XArr _ _ _ => (fst (arr_at arrs A), scr)
  | XUn f a =>
      let '(va, s1) := value_store arrs a (a_of (fst (n_un_store nodes)) A 0) (s_of (snd (n_un_store nodes)) S 0 0) scr in
      let r := f1 F f va in (r, supd s1 S r)
  | XBin k l r =>
      let sr := eff_sr k l r in
      let '(vl, s1) := value_store arrs l (a_of (fst (n_store_left nodes)) A (n_arrays l)) (s_of (snd (n_store_left nodes)) S (n_scratch l) sr) scr in
      let '(vr, s2) := value_store arrs r (a_of (fst (n_store_right nodes)) A (n_arrays l)) (s_of (snd (n_store_right nodes)) S (n_scratch l) sr) s1 in
      if sr =? 0 then (bop k vl vr, s2)
      else if sr =? 1 then let x := bop k vl vr in (x, supd s2 S x)
      else let '(x, aux) := bop_store k vl vr in (x, supd (supd s2 (S + 1) aux) S x)
  end.

Definition value_stored (arrs : list (T * Z)) (e : expr) (A S : Z) (scr : scratch) : T :=
  match e with
  | XAct _ v => v | XPas v => v | XArr _ _ _ => fst (arr_at arrs A)
  | XUn _ _ => scr S
  | XBin k l r => if eff_sr k l r =? 0 then value_at arrs e A else scr S
  end.

(* multiplier expressions *)
Definition wval (w : option T) : T := match w with Some x => x | None => o1 O end.
Definition b2t (b : bool) : T := if b then o1 O else o0 O.
Fixpoint eval_m (w : T) (scrS : Z -> T) (vs : side -> aidx -> sidx -> T) (arg res : T) (der : T -> T -> T) (m : mexp) : T :=
  let ev := eval_m w scrS vs arg res der in
  match m with
  | MW => w | MLit n d => flit F n d | MScr k => scrS k | MVal s a i => vs s a i
  | MArg => arg | MRes => res | MDer a b => der (ev a) (ev b)
  | MNeg a => oneg O (ev a) | MAdd a b => ev a +' ev b | MSub a b => osub O (ev a) (ev b)
  | MMul a b => ev a *' ev b | MDiv a b => odiv O (ev a) (ev b)
  | MFn1 f a => f1 F f (ev a) | MFn2 f a b => f2 F f (ev a) (ev b)
  | MGt a b => b2t (oltb O (ev b) (ev a)) | MLt a b => b2t (oltb O (ev a) (ev b))
  end.
Definition un_derivative (f : fname) (val res : T) : T :=
  match un_der f with
  | Some m => eval_m (o0 O) (fun _ => o0 O) (fun _ _ _ => o0 O) val res (fun _ _ => o0 O) m
  | None => o0 O
  end.
Definition cmp_eval (c : cmp) (x y : T) : bool :=
  match c with CGt => oltb O y x | CLe => oleb O x y | CLt => oltb O x y | CGe => oleb O y x end.

(* one rule: guard, child, template arguments, multiplier *)
Definition apply_rule (rl : rule) (w : option T) (A S nLa nLs sr : Z) (scrS : Z -> T)
    (vs : side -> aidx -> sidx -> T) (der : T -> T -> T)
    (gl gr : Z -> Z -> option T -> list (T * Z)) : list (T * Z) :=
  let ev := eval_m (wval w) scrS vs (o0 O) (o0 O) der in
  let pass := match r_guard rl with
              | None => true
              | Some g => let b := cmp_eval (g_cmp g) (ev (g_l g)) (ev (g_r g)) in if g_neg g then negb b else b
              end in
  if pass then
    (match r_side rl with SL => gl | SR => gr end) (a_of (r_a rl) A nLa) (s_of (r_s rl) S nLs sr) (option_map ev (r_mult rl))
  else [].

Fixpoint calc_gradient (arrs : list (T * Z)) (e : expr) (A S : Z) (scr : scratch) (w : option T) : list (T * Z) :=
  match e with
  | XAct gi _ => [(wval w, gi)]
  | XArr act _ _ => if act then [(wval w, snd (arr_at arrs A))] else []
  | XPas _ => []
  | XUn f a =>
      let vs := fun (_ : side) ai si => value_stored arrs a (a_of ai A 0) (s_of si S 0 0) scr in
      let g := fun A' S' m => calc_gradient arrs a A' S' scr m in
      apply_rule (match w with Some _ => n_un_rule_m nodes | None => n_un_rule nodes end) w A S 0 0 0 (fun j => scr (S + j)) vs (un_derivative f) g g
  | XBin k l r =>
      let p := policy_of k in
      let sr := p_store_result p in
      let nLa := n_arrays l in let nLs := n_scratch l in
      let vs := fun sd ai si => value_stored arrs (match sd with SL => l | SR => r end) (a_of ai A nLa) (s_of si S nLs sr) scr in
      let gl := fun A' S' m => calc_gradient arrs l A' S' scr m in
      let gr := fun A' S' m => calc_gradient arrs r A' S' scr m in
      let nd := fun _ _ => o0 O in
      (if is_active l then apply_rule (match w with Some _ => p_left_m p | None => p_left p end) w A S nLa nLs sr (fun j => scr (S + j)) vs nd gl gr else []) ++
      (if is_active r then apply_rule (match w with Some _ => p_right_m p | None => p_right p end) w A S nLa nLs sr (fun j => scr (S + j)) vs nd gl gr else [])
  end.

(* Expression::scalar_value_and_gradient / one element of an array statement: store, then gradient without multiplier *)
Definition value_and_gradient (e : expr) : T * list (T * Z) :=
  let arrs := arrays_of e in
  let '(v, scr) := value_store arrs e 0 0 (fun _ => o0 O) in
  (v, calc_gradient arrs e 0 0 scr None).

(* ---------------- specification: plain value and tangent *)
Fixpoint sem (e : expr) : T :=
  match e with
  | XAct _ v => v | XArr _ _ v => v | XPas v => v
  | XUn f a => f1 F f (sem a)
  | XBin k l r => if eff_sr k l r =? 2 then fst (bop_store k (sem l) (sem r)) else bop k (sem l) (sem r)
  end.
(* partial derivatives of the binary operations (the mathematics, written by hand) *)
Definition dleft (k : bkind) (x y : T) : T :=
  match k with
  | KAdd => o1 O | KSub => o1 O | KMul => y | KDiv => odiv O (o1 O) y
  | KPow => y *' f2 F F_pow x (osub O y (flit F 1 1))
  | KAtan2 => y *' odiv O (o1 O) (x *' x +' y *' y)
  | KMax => b2t (oltb O y x) | KMin => b2t (oleb O x y)
  end.
Definition dright (k : bkind) (x y : T) : T :=
  match k with
  | KAdd => o1 O | KSub => oneg O (o1 O) | KMul => x
  | KDiv => oneg O ((x *' odiv O (o1 O) y) *' odiv O (o1 O) y)
  | KPow => f2 F F_pow x y *' f1 F F_log x
  | KAtan2 => oneg O x *' odiv O (o1 O) (x *' x +' y *' y)
  | KMax => b2t (negb (oltb O y x)) | KMin => b2t (negb (oleb O x y))
  end.
Fixpoint tangent (u : Z -> T) (e : expr) : T :=
  match e with
  | XAct gi _ => u gi
  | XArr act gi _ => if act then u gi else o0 O
  | XPas _ => o0 O
  | XUn f a => un_derivative f (sem a) (sem e) *' tangent u a
  | XBin k l r =>
      (if is_active l then dleft k (sem l) (sem r) *' tangent u l else o0 O) +'
      (if is_active r then dright k (sem l) (sem r) *' tangent u r else o0 O)
  end.
Definition dot_ops (ops : list (T * Z)) (u : Z -> T) : T := fold_right (fun mi acc => fst mi *' u (snd mi) +' acc) (o0 O) ops.
End Expr.
