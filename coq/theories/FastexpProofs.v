(* C05 (fastexp): method error of quick_e::fastexp_double / fastexp_float.  The computation is the one the
   translator tools/gen_fastexp.py reads from quick_e.h, over the real numbers, with the constants the
   compiler stores.  Not covered here: the floating-point rounding error of the individual operations. *)
From Coq Require Import Reals ZArith Lra Lia.
From Interval Require Import Tactic.
From AdeptGen Require Import Gen_Fastexp.
Local Open Scope R_scope.

Lemma pow2_exp n : powerRZ 2 n = exp (IZR n * ln 2).
Proof. rewrite powerRZ_Rpower by lra. reflexivity. Qed.
Lemma Rabs_bounds x a : Rabs x <= a -> - a <= x <= a.
Proof. unfold Rabs. destruct (Rcase_abs x); lra. Qed.
Lemma exp_cancel y : exp (- y) * exp y = 1.
Proof. rewrite <- exp_plus. replace (- y + y) with 0 by ring. apply exp_0. Qed.

(* combination of the polynomial's error with the error of the reduction constant *)
Lemma rel_combine A e a b eps : Rabs (A - 1) <= a -> Rabs e <= b -> 0 <= a -> 0 <= b -> b <= 1/2 ->
  a + (1 + a) * (2 * b) <= eps -> Rabs (A * exp (- e) - 1) <= eps.
Proof.
  intros HA He Ha Hb Hb2 Heps. apply Rabs_bounds in HA. apply Rabs_bounds in He.
  assert (Rabs (exp (- e) - 1) <= 2 * b) as Hexp.
  { apply Rabs_le. split.
    - assert (1 + - e <= exp (- e)) by (apply exp_ineq1_le). lra.
    - (* exp(-e) <= 1/(1-b) <= 1 + 2b *)
      assert (exp (- e) <= exp b) as H1 by (destruct (Req_dec (- e) b) as [->|Hne]; [lra|left; apply exp_increasing; lra]).
      assert (exp b * exp (- b) = 1) as H2 by (rewrite <- exp_plus; replace (b + - b) with 0 by ring; apply exp_0).
      assert (1 + - b <= exp (- b)) as H3 by (apply exp_ineq1_le).
      assert (0 < exp b) as H4 by apply exp_pos.
      assert (exp b * (1 - b) <= 1) as H5 by nra. nra. }
  apply Rabs_bounds in Hexp. apply Rabs_le.
  replace (A * exp (- e) - 1) with ((A - 1) + A * (exp (- e) - 1)) by ring.
  split; nra.
Qed.

Section Double.
  Import FE_d.
  Lemma poly_rel y : Rabs y <= 3467/10000 -> Rabs ((1 + poly y) * exp (- y) - 1) <= 1/144115188075855872.
  Proof.
    intros Hy. unfold poly, poly_gen, c_p2, c_p3, c_p4, c_p5, c_p6, c_p7, c_p8, c_p9, c_p10, c_p11, c_p12, c_p13.
    interval with (i_taylor y, i_degree 20, i_prec 120, i_bisect y).
  Qed.
  Lemma reduced_small x0 n : (-1100 <= n <= 1100)%Z -> Rabs (round_arg x0 - IZR n) <= 1/2 + 1/1099511627776 ->
    Rabs (reduced x0 n) <= 3467/10000.
  Proof.
    intros Hn Ht. set (t := round_arg x0 - IZR n) in *. set (v := IZR n).
    assert (-1100 <= v <= 1100) as Hv by (unfold v; split; apply IZR_le; lia).
    replace (reduced x0 n) with (t / c_VM_LOG2E + v * (/ c_VM_LOG2E - c_ln2d_hi - c_ln2d_lo)).
    - clearbody t v. unfold c_VM_LOG2E, c_ln2d_hi, c_ln2d_lo. interval with (i_prec 100).
    - unfold t, reduced, round_arg, v, c_VM_LOG2E. field.
  Qed.
  Lemma constant_error n : (-1100 <= n <= 1100)%Z -> Rabs (IZR n * (c_ln2d_hi + c_ln2d_lo - ln 2)) <= 1/5000000000000000000.
  Proof.
    intros Hn. set (v := IZR n). assert (-1100 <= v <= 1100) as Hv by (unfold v; split; apply IZR_le; lia).
    clearbody v. unfold c_ln2d_hi, c_ln2d_lo. interval with (i_prec 150).
  Qed.
  (* for every argument and every integer n within 1/2 + 2^-40 of x*log2(e) (the rounding of the product leaves
     that much), the value computed in exact arithmetic is within 2^-55 of exp x, relatively *)
  Theorem fastexp_double_method_error x0 n : (-1100 <= n <= 1100)%Z ->
    Rabs (round_arg x0 - IZR n) <= 1/2 + 1/1099511627776 ->
    Rabs (result x0 n - exp x0) <= 1/36028797018963968 * exp x0.
  Proof.
    intros Hn Ht. pose proof (reduced_small x0 n Hn Ht) as Hy. pose proof (constant_error n Hn) as He.
    set (y := reduced x0 n) in *. set (e := IZR n * (c_ln2d_hi + c_ln2d_lo - ln 2)) in *.
    assert (x0 = y + e + IZR n * ln 2) as Hx by (unfold y, e, reduced; ring).
    assert (exp x0 = exp y * exp e * powerRZ 2 n) as Hexp by (rewrite pow2_exp, <- !exp_plus; f_equal; exact Hx).
    assert (result x0 n = (1 + poly y) * powerRZ 2 n) as Hres by (unfold result, y, reduced; ring).
    pose proof (poly_rel y Hy) as HA. set (A := (1 + poly y) * exp (- y)) in *.
    assert (Rabs (A * exp (- e) - 1) <= 1/36028797018963968) as Hrel by (apply (rel_combine A e _ _ _ HA He); lra).
    assert (result x0 n - exp x0 = exp x0 * (A * exp (- e) - 1)) as Hd.
    { rewrite Hres, Hexp. unfold A.
      replace (exp y * exp e * powerRZ 2 n * ((1 + poly y) * exp (- y) * exp (- e) - 1))
        with ((1 + poly y) * powerRZ 2 n * (exp (- y) * exp y) * (exp (- e) * exp e) - exp y * exp e * powerRZ 2 n) by ring.
      rewrite !exp_cancel. ring. }
    rewrite Hd, Rabs_mult, (Rabs_pos_eq (exp x0)) by (left; apply exp_pos).
    rewrite Rmult_comm. apply Rmult_le_compat_r; [left; apply exp_pos|exact Hrel].
  Qed.
End Double.

Section Single.
  Import FE_f.
  Definition q_f (y : R) : R := poly y * (y * y) + y.
  Lemma poly_rel_f y : Rabs y <= 3467/10000 -> Rabs ((1 + q_f y) * exp (- y) - 1) <= 1/67108864.
  Proof.
    intros Hy. unfold q_f, poly, poly_gen, c_P0expf, c_P1expf, c_P2expf, c_P3expf, c_P4expf, c_P5expf.
    interval with (i_taylor y, i_degree 12, i_prec 60, i_bisect y).
  Qed.
  Lemma reduced_small_f x0 n : (-130 <= n <= 130)%Z -> Rabs (round_arg x0 - IZR n) <= 1/2 + 1/65536 ->
    Rabs (reduced x0 n) <= 3467/10000.
  Proof.
    intros Hn Ht. set (t := round_arg x0 - IZR n) in *. set (v := IZR n).
    assert (-130 <= v <= 130) as Hv by (unfold v; split; apply IZR_le; lia).
    replace (reduced x0 n) with (t / c_VM_LOG2E + v * (/ c_VM_LOG2E - c_ln2f_hi - c_ln2f_lo)).
    - clearbody t v. unfold c_VM_LOG2E, c_ln2f_hi, c_ln2f_lo. interval with (i_prec 60).
    - unfold t, reduced, round_arg, v, c_VM_LOG2E. field.
  Qed.
  Lemma constant_error_f n : (-130 <= n <= 130)%Z -> Rabs (IZR n * (c_ln2f_hi + c_ln2f_lo - ln 2)) <= 1/500000000.
  Proof.
    intros Hn. set (v := IZR n). assert (-130 <= v <= 130) as Hv by (unfold v; split; apply IZR_le; lia).
    clearbody v. unfold c_ln2f_hi, c_ln2f_lo. interval with (i_prec 80).
  Qed.
  Theorem fastexp_float_method_error x0 n : (-130 <= n <= 130)%Z ->
    Rabs (round_arg x0 - IZR n) <= 1/2 + 1/65536 ->
    Rabs (result x0 n - exp x0) <= 1/33554432 * exp x0.
  Proof.
    intros Hn Ht. pose proof (reduced_small_f x0 n Hn Ht) as Hy. pose proof (constant_error_f n Hn) as He.
    set (y := reduced x0 n) in *. set (e := IZR n * (c_ln2f_hi + c_ln2f_lo - ln 2)) in *.
    assert (x0 = y + e + IZR n * ln 2) as Hx by (unfold y, e, reduced; ring).
    assert (exp x0 = exp y * exp e * powerRZ 2 n) as Hexp by (rewrite pow2_exp, <- !exp_plus; f_equal; exact Hx).
    assert (result x0 n = (1 + q_f y) * powerRZ 2 n) as Hres by (unfold result, q_f, y, reduced; ring).
    pose proof (poly_rel_f y Hy) as HA. set (A := (1 + q_f y) * exp (- y)) in *.
    assert (Rabs (A * exp (- e) - 1) <= 1/33554432) as Hrel by (apply (rel_combine A e _ _ _ HA He); lra).
    assert (result x0 n - exp x0 = exp x0 * (A * exp (- e) - 1)) as Hd.
    { rewrite Hres, Hexp. unfold A.
      replace (exp y * exp e * powerRZ 2 n * ((1 + q_f y) * exp (- y) * exp (- e) - 1))
        with ((1 + q_f y) * powerRZ 2 n * (exp (- y) * exp y) * (exp (- e) * exp e) - exp y * exp e * powerRZ 2 n) by ring.
      rewrite !exp_cancel. ring. }
    rewrite Hd, Rabs_mult, (Rabs_pos_eq (exp x0)) by (left; apply exp_pos).
    rewrite Rmult_comm. apply Rmult_le_compat_r; [left; apply exp_pos|exact Hrel].
  Qed.
End Single.

(* the hypothesis of the method-error theorems is met by every argument the range test lets through *)
Lemma nearest_exists r : exists n : Z, Rabs (r - IZR n) <= 1/2.
Proof.
  exists (up (r - 1/2)). destruct (archimed (r - 1/2)) as [H1 H2]. apply Rabs_le. lra.
Qed.
Lemma in_range_double x0 : FE_d.c_min_x <= x0 <= FE_d.c_max_x ->
  exists n : Z, (-1100 <= n <= 1100)%Z /\ Rabs (FE_d.round_arg x0 - IZR n) <= 1/2 + 1/1099511627776.
Proof.
  intros Hx. destruct (nearest_exists (FE_d.round_arg x0)) as [n Hn]. exists n. split; [|lra].
  apply Rabs_bounds in Hn. unfold FE_d.round_arg, FE_d.c_VM_LOG2E, FE_d.c_min_x, FE_d.c_max_x in *.
  split; apply le_IZR; lra.
Qed.
Lemma in_range_float x0 : FE_f.c_min_x <= x0 <= FE_f.c_max_x ->
  exists n : Z, (-130 <= n <= 130)%Z /\ Rabs (FE_f.round_arg x0 - IZR n) <= 1/2 + 1/65536.
Proof.
  intros Hx. destruct (nearest_exists (FE_f.round_arg x0)) as [n Hn]. exists n. split; [|lra].
  apply Rabs_bounds in Hn. unfold FE_f.round_arg, FE_f.c_VM_LOG2E, FE_f.c_min_x, FE_f.c_max_x in *.
  split; apply le_IZR; lra.
Qed.
