(* Abstract scalar type shared by all numeric models: a record of operations, so that the same
   model functions are (1) reasoned about over any ring/field or over R, and (2) executed on
   OCaml floats (driver fills the record with +. *. ... from the same libm the C++ uses) or on Q. *)
From Coq Require Import List Bool.
Record Ops (T : Type) := mkOps {
  o0 : T; o1 : T;
  oadd : T -> T -> T; osub : T -> T -> T; omul : T -> T -> T; odiv : T -> T -> T; oneg : T -> T;
  oeqb : T -> T -> bool; oltb : T -> T -> bool; oleb : T -> T -> bool
}.
Arguments o0 {T}. Arguments o1 {T}. Arguments oadd {T}. Arguments osub {T}. Arguments omul {T}.
Arguments odiv {T}. Arguments oneg {T}. Arguments oeqb {T}. Arguments oltb {T}. Arguments oleb {T}.

(* the integer instance: exact execution inside Coq (vm_compute) and non-vacuity examples *)
From Coq Require Import ZArith Ring.
Definition ZOps : Ops Z := mkOps Z 0%Z 1%Z Z.add Z.sub Z.mul Z.div Z.opp Z.eqb Z.ltb Z.leb.
Lemma ZOps_ring : ring_theory (o0 ZOps) (o1 ZOps) (oadd ZOps) (omul ZOps) (osub ZOps) (oneg ZOps) (@eq Z).
Proof. exact InitialRing.Zth. Qed.
Lemma ZOps_eqb_true : forall a b, oeqb ZOps a b = true -> a = b.
Proof. intros a b H. apply Z.eqb_eq. exact H. Qed.
