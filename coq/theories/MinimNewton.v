(* C19, completeness in the simplest case, over the real numbers: on a quadratic cost with its exact gradient and Hessian and an
   exact linear solver, the unbounded Levenberg-Marquardt driver started with zero damping takes the Newton step, lands on
   the stationary point and reports SUCCESS after one iteration (provided that step lowers the cost, which it does for a
   convex quadratic away from the minimum; that last fact is a hypothesis here). *)
From Coq Require Import Reals Lra List Bool ZArith Lia.
From Adept Require Import Scalar Minim MinimProofs RealOps MinimReal.
Import ListNotations.
Local Open Scope R_scope.

Definition dotR (a b : list R) : R := fold_right Rplus 0 (map2 Rmult a b).
Definition matvec (m : list (list R)) (x : list R) : list R := map (fun row => dotR row x) m.
Definition zeros (n : nat) : list R := repeat 0 n.

Lemma map2_Rplus_length a b : length a = length b -> length (map2 Rplus a b) = length a.
Proof. apply (map2_length Rplus). Qed.
Lemma dotR_add row x y : length x = length y -> length row = length x -> dotR row (map2 Rplus x y) = dotR row x + dotR row y.
Proof.
  revert x y. induction row as [|r row IH]; intros [|a x] [|b y] H1 H2; cbn in *; try lra; try discriminate.
  unfold dotR in *. cbn. rewrite (IH x y) by lia. ring.
Qed.
Lemma dotR_neg row x : dotR row (map Ropp x) = - dotR row x.
Proof.
  revert x. induction row as [|r row IH]; intros [|a x]; cbn; try lra. unfold dotR in *. cbn. rewrite IH. ring.
Qed.
Lemma matvec_add m x y : length x = length y -> (forall row, In row m -> length row = length x) -> matvec m (map2 Rplus x y) = map2 Rplus (matvec m x) (matvec m y).
Proof.
  intros Hl Hrow. unfold matvec. induction m as [|row m IH]; [reflexivity|]. cbn [map map2]. rewrite dotR_add; [|exact Hl|apply Hrow; left; reflexivity].
  f_equal. apply IH. intros r Hr. apply Hrow. right. exact Hr.
Qed.
Lemma matvec_neg m x : matvec m (map Ropp x) = map Ropp (matvec m x).
Proof. unfold matvec. induction m as [|row m IH]; [reflexivity|]. cbn [map]. rewrite dotR_neg, IH. reflexivity. Qed.
Lemma matvec_length m x : length (matvec m x) = length m.
Proof. apply map_length. Qed.
(* (u - b) + (-u) ... : the list identity behind "gradient at x - H^-1 g is zero" *)
Lemma cancel u v b : length u = length b -> v = map2 Rminus u b ->
  map2 Rminus (map2 Rplus u (map Ropp v)) b = map2 Rminus (map2 Rplus u (map Ropp (map2 Rminus u b))) b.
Proof. intros _ ->. reflexivity. Qed.
Lemma zero_grad u b : length u = length b -> map2 Rminus (map2 Rplus u (map Ropp (map2 Rminus u b))) b = zeros (length u).
Proof.
  revert b. induction u as [|a u IH]; intros [|c b] H; cbn in *; try reflexivity; try discriminate.
  f_equal; [ring|apply IH; lia].
Qed.

Lemma set_nth_same {A} i (r : list A) d : set_nth i (nth i r d) r = r.
Proof. revert i. induction r as [|a r IH]; intros [|i]; cbn; try reflexivity. f_equal. apply IH. Qed.
Lemma map_diag_id (f : R -> R) m : (forall v, f v = v) -> map_diag RO f m = m.
Proof.
  intros Hf. unfold map_diag. generalize 0%nat. induction m as [|r m IH]; intros i; [reflexivity|]. cbn. rewrite Hf, IH. f_equal. apply (set_nth_same i r 0).
Qed.

Section Newton.
Variable H : list (list R).
Variable b : list R.
Variable n : nat.
Hypothesis H_rows : length H = n.
Hypothesis H_cols : forall row, In row H -> length row = n.
Hypothesis b_len : length b = n.
Variable cost : list R -> R.
Variable solve : list (list R) -> list R -> list R.
Variable norm2 : list R -> R.
Variable isfinite : R -> bool.
Variable ofnat : nat -> R.
Definition qgrad (x : list R) : list R := map2 Rminus (matvec H x) b.
Definition qhess (_ : list R) : list (list R) := H.
Hypothesis solve_exact : forall g, length g = n -> matvec H (solve H g) = g /\ length (solve H g) = n.
Hypothesis norm_zero : norm2 (zeros n) = 0.
Hypothesis finite_all : forall v, isfinite v = true.

(* the Newton step from any x of the right size lands on a point with zero gradient *)
Lemma newton_point x : length x = n -> qgrad (map2 Rplus x (map Ropp (solve H (qgrad x)))) = zeros n.
Proof.
  intros Hx. unfold qgrad.
  assert (Lg : length (map2 Rminus (matvec H x) b) = n) by (rewrite map2_length; rewrite matvec_length; lia).
  destruct (solve_exact _ Lg) as [Hs Ls].
  rewrite matvec_add; [|rewrite map_length; lia|intros row Hr; rewrite (H_cols row Hr); lia].
  rewrite matvec_neg, Hs. rewrite zero_grad by (rewrite matvec_length; lia). rewrite matvec_length, H_rows. reflexivity.
Qed.

Theorem lm_newton_one_step (s : settings (T:=R)) x m1 fo fi :
  length x = n -> d_start s = 0 -> ~ (0 < max_step s) -> 0 <= thr s -> (1 < max_it s)%Z ->
  ~ (norm2 (qgrad x) <= thr s) ->
  cost (map2 Rplus x (map Ropp (solve H (qgrad x)))) < cost x ->
  let r := lm_unbounded RO cost qgrad qhess solve norm2 isfinite ofnat (S (S fo)) (S fi) s false x m1 in
  r_status r = MSuccess /\ r_iter r = 1%Z /\ qgrad (r_x r) = zeros n /\ r_x r = map2 Rplus x (map Ropp (solve H (qgrad x))).
Proof.
  intros Hx Hd Hms Hthr Hmax Hnc Hdec r. unfold r, lm_unbounded. rewrite Hd.
  cbn [Minim.lm_outer]. rewrite !finite_all. cbn [negb].
  assert (Hex : forall g, existsb (fun v => negb (isfinite v)) g = false) by (intros g; induction g as [|a g IH]; cbn; [reflexivity|rewrite finite_all, IH; reflexivity]).
  rewrite Hex.
  assert (E1 : oleb RO (norm2 (qgrad x)) (thr s) = false) by (cbn; unfold Rleb; destruct (Rle_dec _ _); [contradiction|reflexivity]).
  rewrite E1. cbn [Minim.lm_inner]. unfold damp_diag. cbn [fst snd].
  rewrite (map_diag_id (fun v => omul RO v (odiv RO (oadd RO (o1 RO) 0) (o1 RO))) (qhess x)) by (intros v; cbn; field).
  unfold limit_step. assert (E2 : oltb RO (o0 RO) (max_step s) = false) by (cbn; unfold Rltb; destruct (Rlt_dec _ _); [contradiction|reflexivity]).
  rewrite E2. change (qhess x) with H.
  set (nx := vadd RO x (vneg RO (solve H (qgrad x)))).
  assert (Enx : nx = map2 Rplus x (map Ropp (solve H (qgrad x)))) by reflexivity.
  rewrite finite_all. cbn [negb orb].
  assert (E3 : oleb RO (cost x) (cost nx) = false) by (cbn; unfold Rleb; destruct (Rle_dec _ _); [rewrite Enx in *; lra|reflexivity]).
  rewrite E3. cbn [orb].
  assert (E4 : zge (0 + 1) (max_it s) = false) by (unfold zge; apply Z.leb_gt; lia).
  rewrite E4. cbn [Minim.lm_outer]. rewrite !finite_all, Hex. cbn [negb].
  assert (Eg : qgrad nx = zeros n) by (rewrite Enx; apply newton_point; exact Hx).
  rewrite Eg, norm_zero.
  assert (E5 : oleb RO 0 (thr s) = true) by (cbn; unfold Rleb; destruct (Rle_dec _ _); [reflexivity|contradiction]).
  rewrite E5. destruct (Minim.refresh _ _ _ _ _ _) as [c lg]. cbn [r_status r_iter r_x].
  split; [reflexivity|]. split; [reflexivity|]. split; [exact Eg|exact Enx].
Qed.
End Newton.
