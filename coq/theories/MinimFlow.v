(* C18: the ways in which the bounded minimizers touch the state vectors they hand to the user's call-backs, as a small
   language of atoms (the program of each driver is GENERATED from the C++ by tools/gen_minim.py), with a semantics that
   over-approximates every control flow: an execution is ANY sequence of the driver's atoms, in any order, any number of
   times, with arbitrary values produced by the arithmetic updates. *)
From Coq Require Import List Bool.
From Adept Require Import Scalar Minim.
Import ListNotations.

Inductive var := Vx | Vnew | Vtest.
Inductive atom := AUpdClamp (v : var) | AUpdate (v : var) | AClamp (v : var) | ACopy (v w : var) | ASnap (v : var) | ACall (v : var)
                | AInvoke (bounds_passed : bool) | AInvokeFree.
Definition var_eqb (a b : var) : bool := match a, b with Vx, Vx | Vnew, Vnew | Vtest, Vtest => true | _, _ => false end.
(* the syntactic condition: no unclamped update, bounds passed to every callee that clamps only when given bounds *)
Definition safe_atom (a : atom) : bool := match a with AUpdate _ => false | AInvoke b => b | _ => true end.
Definition safe (p : list atom) : bool := forallb safe_atom p.

Section Semantics.
Context {T : Type} (O : Ops T).
Variables lo hi : list T.
Definition state := var -> list T.
Definition upd (s : state) (v : var) (u : list T) : state := fun w => if var_eqb w v then u else s w.
(* one atom; the last component is the state handed to the user, if the atom is a call-back *)
Inductive step : state -> atom -> state -> option (list T) -> Prop :=
| SUpdClamp s v u : length u = length lo -> step s (AUpdClamp v) (upd s v (clamp O lo hi u)) None
| SUpdate s v u : step s (AUpdate v) (upd s v u) None
| SClamp s v : step s (AClamp v) (upd s v (clamp O lo hi (s v))) None
| SCopy s v w : step s (ACopy v w) (upd s v (s w)) None
| SSnap s v i (up : bool) : step s (ASnap v) (upd s v (set_nth i (if up then nth i hi (o0 O) else nth i lo (o0 O)) (s v))) None
| SCall s v : step s (ACall v) s (Some (s v))
| SInvoke s b : step s (AInvoke b) s None
(* the line search without bounds is entered only when no component of the direction points to a finite bound: what it
   does to the vectors is unconstrained except that it cannot leave the box; this is an ASSUMPTION of the model *)
| SInvokeFree s s' : (forall v, length (s' v) = length lo /\ forall j, (j < length (s' v))%nat ->
                                   oleb O (nth j lo (o0 O)) (nth j (s' v) (o0 O)) = true /\ oleb O (nth j (s' v) (o0 O)) (nth j hi (o0 O)) = true) ->
                     step s AInvokeFree s' None.
Inductive exec : state -> list atom -> state -> list (list T) -> Prop :=
| ENil s : exec s [] s []
| ECons s a s1 o tr s2 obs : step s a s1 o -> exec s1 tr s2 obs -> exec s (a :: tr) s2 (match o with Some x => x :: obs | None => obs end).
End Semantics.
