(* C15 (dense part): whatever admissible layout the operands have, the cell that BLAS is asked to compute through
   Adept's marshalling is the defining sum over the operands' elements, it lands at the right place of the answer,
   and the recorded statement of an active product is the differential of that sum. *)
From Coq Require Import ZArith List Bool Lia Ring.
From Adept Require Import Scalar Matmul.
Import ListNotations.
Local Open Scope Z_scope.

Section MatmulProofs.
Context {T : Type} (O : Ops T).
Hypothesis Rth : ring_theory (o0 O) (o1 O) (oadd O) (omul O) (osub O) (oneg O) (@eq T).
Add Ring TringM : Rth.
Notation zsum := (zsum O). Notation melem := (melem (T:=T)). Notation velem := (velem (T:=T)).

Lemma fold_ext (f g : Z -> T) l a : (forall q, In q l -> f (Z.of_nat q) = g (Z.of_nat q)) ->
  fold_left (fun a q => oadd O a (f (Z.of_nat q))) l a = fold_left (fun a q => oadd O a (g (Z.of_nat q))) l a.
Proof. revert a. induction l as [|x l IH]; intros a H; [reflexivity|]. cbn. rewrite (H x) by (left; reflexivity). apply IH. intros q Hq. apply H. right. exact Hq. Qed.
Lemma zsum_ext n f g : (forall q, 0 <= q < n -> f q = g q) -> zsum n f = zsum n g.
Proof.
  intros H. unfold Matmul.zsum. apply fold_ext. intros q Hq. apply in_seq in Hq. apply H. lia.
Qed.

Theorem gemm_addr c0 cs i j : adept_gemm_addr c0 cs i j = c0 + i * cs + j.
Proof. unfold adept_gemm_addr, cppblas_gemm_addr, f_gemm_addr. lia. Qed.

Theorem gemm_correct mem (l r : mview) i j v : adept_gemm_cell O mem l r i j = Some v ->
  v = zsum (md1 l) (fun q => omul O (melem mem l i q) (melem mem r q j)).
Proof.
  unfold adept_gemm_cell. destruct ((row_contig l || col_contig l) && (row_contig r || col_contig r)) eqn:E; [|discriminate].
  intros H. inversion H as [Hv]. clear H Hv. apply andb_true_iff in E. destruct E as [El Er].
  unfold cppblas_gemm_cell, f_gemm_cell. apply zsum_ext. intros q Hq. unfold f_op, Matmul.melem.
  destruct (row_contig l) eqn:Rl; destruct (row_contig r) eqn:Rr; cbn [negb orb] in *.
  - unfold row_contig in Rl, Rr. apply andb_true_iff in Rl, Rr. destruct Rl as [L1 _]. destruct Rr as [R1 _]. apply Z.eqb_eq in L1, R1.
    rewrite L1, R1. replace (mb r + j + q * ms0 r) with (mb r + q * ms0 r + j * 1) by lia. replace (mb l + q + i * ms0 l) with (mb l + i * ms0 l + q * 1) by lia. ring.
  - unfold row_contig in Rl. unfold col_contig in Er. apply andb_true_iff in Rl, Er. destruct Rl as [L1 _]. destruct Er as [R0 _]. apply Z.eqb_eq in L1, R0.
    rewrite L1, R0. replace (mb r + q + j * ms1 r) with (mb r + q * 1 + j * ms1 r) by lia. replace (mb l + q + i * ms0 l) with (mb l + i * ms0 l + q * 1) by lia. ring.
  - unfold col_contig in El. unfold row_contig in Rr. apply andb_true_iff in El, Rr. destruct El as [L0 _]. destruct Rr as [R1 _]. apply Z.eqb_eq in L0, R1.
    rewrite L0, R1. replace (mb r + j + q * ms0 r) with (mb r + q * ms0 r + j * 1) by lia. replace (mb l + i + q * ms1 l) with (mb l + i * 1 + q * ms1 l) by lia. ring.
  - unfold col_contig in El, Er. apply andb_true_iff in El, Er. destruct El as [L0 _]. destruct Er as [R0 _]. apply Z.eqb_eq in L0, R0.
    rewrite L0, R0. replace (mb r + q + j * ms1 r) with (mb r + q * 1 + j * ms1 r) by lia. replace (mb l + i + q * ms1 l) with (mb l + i * 1 + q * ms1 l) by lia. ring.
Qed.

Theorem gemv_correct mem (l : mview) (x : vview) i v : adept_gemv_cell O mem l x i = Some v ->
  v = zsum (md1 l) (fun q => omul O (melem mem l i q) (velem mem x q)).
Proof.
  unfold adept_gemv_cell. destruct ((row_contig l || col_contig l) && (0 <? vinc x)) eqn:E; [|discriminate].
  intros H. inversion H as [Hv]. clear H Hv. apply andb_true_iff in E. destruct E as [El _].
  destruct (row_contig l) eqn:Rl; cbn [negb orb cppblas_gemv_cell f_gemv_cell] in *.
  - unfold row_contig in Rl. apply andb_true_iff in Rl. destruct Rl as [L1 _]. apply Z.eqb_eq in L1.
    apply zsum_ext. intros q Hq. unfold Matmul.melem, Matmul.velem. rewrite L1.
    replace (mb l + q + i * ms0 l) with (mb l + i * ms0 l + q * 1) by lia. reflexivity.
  - unfold col_contig in El. apply andb_true_iff in El. destruct El as [L0 _]. apply Z.eqb_eq in L0.
    apply zsum_ext. intros q Hq. unfold Matmul.melem, Matmul.velem. rewrite L0.
    replace (mb l + i + q * ms1 l) with (mb l + i * 1 + q * ms1 l) by lia. reflexivity.
Qed.

(* ---- derivative statements *)
Lemma ops_val_acc ops g a : fold_left (fun a mi => oadd O a (omul O (fst mi) (g (snd mi)))) ops a = oadd O a (ops_val O ops g).
Proof.
  unfold ops_val. revert a. induction ops as [|x l IH]; intros a; cbn [fold_left]; [ring|]. rewrite IH, (IH (oadd O (o0 O) _)). ring.
Qed.
Lemma ops_val_app a b g : ops_val O (a ++ b) g = oadd O (ops_val O a g) (ops_val O b g).
Proof. unfold ops_val at 1. rewrite fold_left_app. fold (ops_val O a g). apply ops_val_acc. Qed.
Lemma ops_val_push mem g rhs mult0 n is ms_ :
  ops_val O (push_dep mem rhs mult0 n is ms_) g = zsum n (fun q => omul O (mem (mult0 + q * ms_)) (g (rhs + q * is))).
Proof.
  unfold ops_val, push_dep, Matmul.zsum. generalize (o0 O) as a. induction (seq 0 (Z.to_nat n)) as [|x l IH]; intros a; [reflexivity|].
  cbn [map fold_left fst snd]. apply IH.
Qed.
(* the statement recorded for C(i,j) is  dC(i,j) = sum_q R(q,j) dL(i,q) + sum_q L(i,q) dR(q,j)  restricted to the active operands *)
Theorem statement_is_differential mem (l r : mview) lact ract lidx ridx i j g :
  ops_val O (gemm_statement mem l r lact ract lidx ridx i j) g =
  oadd O (if lact then zsum (md0 r) (fun q => omul O (melem mem r q j) (g (lidx + i * ms0 l + q * ms1 l))) else o0 O)
         (if ract then zsum (md0 r) (fun q => omul O (melem mem l i q) (g (ridx + q * ms0 r + j * ms1 r))) else o0 O).
Proof.
  unfold gemm_statement. rewrite ops_val_app. f_equal.
  - destruct lact; [|reflexivity]. rewrite ops_val_push. apply zsum_ext. intros q Hq. unfold Matmul.melem.
    replace (mb r + j * ms1 r + q * ms0 r) with (mb r + q * ms0 r + j * ms1 r) by lia. reflexivity.
  - destruct ract; [|reflexivity]. rewrite ops_val_push. apply zsum_ext. intros q Hq. unfold Matmul.melem.
    replace (ridx + j * ms1 r + q * ms0 r) with (ridx + q * ms0 r + j * ms1 r) by lia. reflexivity.
Qed.
End MatmulProofs.
