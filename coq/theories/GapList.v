(* Executable model of the gradient-slot allocator ("gap list") of adept::Stack.
   Source: include/adept/Stack.h:181-274 (register_gradient, unregister_gradient),
   adept/Stack.cpp:195-449 (do_register_gradients, unregister_gradient_not_top,
   unregister_gradients).  Branch for branch; the cached iterator most_recent_gap_ is
   the index [cur] into the list.  No proofs in this file (so it still runs when a proof breaks). *)
From Coq Require Import ZArith List Bool.
Import ListNotations.
Local Open Scope Z_scope.

Notation gap := (Z * Z)%type (only parsing).                 (* (start, end), inclusive *)
Record st := mk { ig : Z; mg : Z; nreg : Z; gaps : list gap; cur : option nat }.
Definition init : st := mk 0 0 0 [] None.

Fixpoint set_nth {A} (k:nat) (x:A) (l:list A) : list A :=
  match l, k with [], _ => [] | _ :: t, O => x :: t | h :: t, S k' => h :: set_nth k' x t end.
Fixpoint remove_nth {A} (k:nat) (l:list A) : list A :=
  match l, k with [], _ => [] | _ :: t, O => t | h :: t, S k' => h :: remove_nth k' t end.
Fixpoint insert_nth {A} (k:nat) (x:A) (l:list A) : list A :=
  match k, l with O, _ => x :: l | S k', h :: t => h :: insert_nth k' x t | S _, [] => [x] end.

(* cursor bookkeeping when the element at index k is erased: std::list iterators to other
   elements stay valid, so an index above k shifts down; the erased one becomes end() only
   where the C++ resets it explicitly, otherwise it would dangle - callers decide. *)
Definition cur_after_erase (k:nat) (c:option nat) : option nat :=
  match c with None => None
  | Some j => if Nat.eqb j k then None else if Nat.ltb k j then Some (Nat.pred j) else Some j end.

Definition bump_max (s:st) (i:Z) : Z := if Z.ltb (mg s) i then i else mg s.

(* Stack::register_gradient() *)
Definition register1 (s:st) : st * Z :=
  match gaps s with
  | [] => let i := ig s + 1 in (mk i (bump_max s i) (nreg s + 1) [] (cur s), ig s)
  | (a,b) :: rest =>
      if Z.ltb b (a+1)
      then (mk (ig s) (mg s) (nreg s + 1) rest (cur_after_erase 0 (cur s)), a)
      else (mk (ig s) (mg s) (nreg s + 1) ((a+1,b) :: rest) (cur s), a)
  end.

(* Stack::do_register_gradients(n) : first gap that fits *)
Fixpoint find_fit (n:Z) (k:nat) (l:list gap) : option (nat * gap) :=
  match l with [] => None
  | (a,b) :: t => if Z.leb n (b + 1 - a) then Some (k,(a,b)) else find_fit n (S k) t end.
Definition registerN (s:st) (n:Z) : st * Z :=
  match find_fit n 0%nat (gaps s) with
  | Some (k,(a,b)) =>
      if Z.ltb n (b + 1 - a)
      then (mk (ig s) (mg s) (nreg s + n) (set_nth k (a+n,b) (gaps s)) (cur s), a)
      else (mk (ig s) (mg s) (nreg s + n) (remove_nth k (gaps s)) (cur_after_erase k (cur s)), a)
  | None => let i := ig s + n in (mk i (bump_max s i) (nreg s + n) (gaps s) (cur s), ig s)
  end.

Inductive status := AtBase | AtTop | NewGap | NotFound.

(* linear search of Stack.cpp:383-417 *)
Fixpoint search (idx n:Z) (k:nat) (l:list gap) : option (nat * status) :=
  match l with [] => None
  | (a,b) :: t =>
      if Z.leb idx (b+1)
      then Some (k, if Z.eqb idx (a - n) then AtBase else if Z.eqb idx (b+1) then AtTop else NewGap)
      else search idx n (S k) t
  end.

Definition merge (k:nat) (stt:status) (g:list gap) : list gap * nat :=
  match stt with
  | AtBase =>
      match k with O => (g,k)
      | S k' => match nth_error g k', nth_error g k with
                | Some (pa,pb), Some (a,b) =>
                    if Z.eqb pb (a-1) then (remove_nth k' (set_nth k (pa,b) g), k') else (g,k)
                | _,_ => (g,k) end
      end
  | AtTop =>
      match nth_error g k, nth_error g (S k) with
      | Some (a,b), Some (na,nb) =>
          if Z.eqb na (b+1) then (remove_nth (S k) (set_nth k (a,nb) g), k) else (g,k)
      | _,_ => (g,k) end
  | _ => (g,k)
  end.

(* "find the place" phase of unregister (Stack.cpp:231-280 / 340-412): first the cached
   most-recent gap, then the linear search; returns the position, what was done, the new list *)
Definition place (s:st) (idx n:Z) : nat * status * list gap :=
  let try_cur :=
    match cur s with
    | Some k => match nth_error (gaps s) k with
                | Some (a,b) =>
                    if Z.eqb idx (a - n) then Some (k, AtBase, set_nth k (a-n,b) (gaps s))
                    else if Z.eqb idx (b+1) then Some (k, AtTop, set_nth k (a,b+n) (gaps s))
                    else None
                | None => None end
    | None => None end in
  match try_cur with
  | Some r => r
  | None =>
      match search idx n 0%nat (gaps s) with
      | Some (k, AtBase) => match nth_error (gaps s) k with
                            | Some (a,b) => (k, AtBase, set_nth k (a-n,b) (gaps s))
                            | None => (k, NotFound, gaps s) end
      | Some (k, AtTop) => match nth_error (gaps s) k with
                           | Some (a,b) => (k, AtTop, set_nth k (a,b+n) (gaps s))
                           | None => (k, NotFound, gaps s) end
      | Some (k, _) => (k, NewGap, insert_nth k (idx, idx+n-1) (gaps s))
      | None => (length (gaps s), NewGap, gaps s ++ [(idx, idx+n-1)])
      end
  end.

(* Stack::unregister_gradients(idx,n); n = 1 is unregister_gradient + _not_top *)
Definition unregisterN (s:st) (idx n:Z) : st :=
  let nr := nreg s - n in
  if Z.eqb (idx + n) (ig s) then
    let i := ig s - n in
    match rev (gaps s) with
    | (a,b) :: _ =>
        if Z.eqb i (b+1)
        then let k := Nat.pred (length (gaps s)) in
             mk a (mg s) nr (removelast (gaps s)) (cur_after_erase k (cur s))
        else mk i (mg s) nr (gaps s) (cur s)
    | [] => mk i (mg s) nr (gaps s) (cur s)
    end
  else
    let '(k, stt, g) := place s idx n in
    let '(g', k') := merge k stt g in
    mk (ig s) (mg s) nr g' (Some k').

Definition new_recording (s:st) : st := mk (ig s) (ig s + 1) (nreg s) (gaps s) (cur s).


(* ---------------------------------------------------------------------------------- *)
(* Histories: the specification-level view used by the theorems and by the drivers.     *)
(* The list of live blocks (start, size) is what the *user* holds (each live active      *)
(* object remembers its own gradient index); the allocator never sees it.                *)
Definition blocks := list (Z * Z).
Inductive op := OReg1 | ORegN (n : Z) | OUnreg (k : nat) | ONewRec.

Definition step (sL : st * blocks) (o : op) : st * blocks :=
  let '(s, L) := sL in
  match o with
  | OReg1 => let '(s', r) := register1 s in (s', (r, 1) :: L)
  | ORegN n => if Z.leb 1 n then let '(s', r) := registerN s n in (s', (r, n) :: L) else sL
  | OUnreg k => match nth_error L k with
                | Some (idx, n) => (unregisterN s idx n, remove_nth k L)
                | None => sL end
  | ONewRec => (new_recording s, L)
  end.
Definition run (ops : list op) : st * blocks := fold_left step ops (init, []).
