(* C03 (element-wise core): the tape an active array statement records acts on every seed like the tape of the
   scalar program it denotes, and the values are the same. *)
From Coq Require Import ZArith List Bool Lia Ring Arith.
From Adept Require Import Scalar ExprDefs Expr ExprProofs Tape TapeAdjoint Program ProgramProofs ArrayStmt.
Import ListNotations.

Section ArrayProofs.
Context {T : Type} (F : FOps T).
Let O := fbase F.
Hypothesis Rth : ring_theory (o0 O) (o1 O) (oadd O) (omul O) (osub O) (oneg O) (@eq T).
Hypothesis Hdiv : forall x y, odiv O x y = omul O x (odiv O (o1 O) y).
Hypothesis Hlit1 : flit F 1 1 = o1 O.

(* element i of the array expression and the scalar expression it denotes: same activity, value, tangent *)
Lemma ainst_same vals u e i :
  is_active (ainst vals e i) = is_active (instantiate vals (to_scalar e i)) /\
  sem F (ainst vals e i) = sem F (instantiate vals (to_scalar e i)) /\
  tangent F u (ainst vals e i) = tangent F u (instantiate vals (to_scalar e i)).
Proof.
  induction e as [[b st|d]|x|c|f a IH|k l IHl r IHr]; cbn [ainst to_scalar instantiate is_active sem tangent]; try (repeat split; reflexivity).
  - destruct IH as (Ha & Hs & Ht). rewrite Ha, Hs, Ht. repeat split; reflexivity.
  - destruct IHl as (Hal & Hsl & Htl). destruct IHr as (Har & Hsr & Htr).
    unfold eff_sr. rewrite Hal, Har, Hsl, Hsr, Htl, Htr. repeat split; reflexivity.
Qed.

Lemma aexec_S tb ts n e vals0 : aexec F tb ts (S n) e vals0 = aexec_elem F tb ts e (aexec F tb ts n e vals0) n.
Proof. unfold aexec. rewrite seq_S, fold_left_app. reflexivity. Qed.
Lemma denoted_S tb ts n (e : aexp (T:=T)) : denoted tb ts (S n) e = denoted tb ts n e ++ [PSetE (elem tb ts n) (to_scalar e n)].
Proof. unfold denoted. rewrite seq_S, map_app. reflexivity. Qed.

Theorem aexec_forward tb ts n e vals0 u0 :
  fst (aexec F tb ts n e vals0) = fst (dexec F (denoted tb ts n e) vals0 u0) /\
  fwd_sweep O (snd (aexec F tb ts n e vals0)) u0 = snd (dexec F (denoted tb ts n e) vals0 u0).
Proof.
  induction n as [|n IH]; [split; reflexivity|].
  rewrite aexec_S, denoted_S, (dexec_snoc F). destruct IH as [Hv Ht].
  destruct (aexec F tb ts n e vals0) as [vals tp]. destruct (dexec F (denoted tb ts n e) vals0 u0) as [dv dt]. cbn [fst snd] in *. subst dv.
  cbn [aexec_elem dexec1].
  pose proof (value_and_gradient_correct F Rth Hdiv Hlit1 (ainst vals e n)) as Hvg.
  destruct (value_and_gradient F (ainst vals e n)) as [v ops]. cbn [fst snd] in *.
  destruct (Hvg (fun z => dt (Z.to_nat z))) as [Hval Hdot].
  destruct (ainst_same vals (fun z => dt (Z.to_nat z)) e n) as (_ & Hs & Htan).
  split; [rewrite Hval, Hs; reflexivity|].
  unfold fwd_sweep. rewrite fold_left_app. cbn [fold_left]. fold (fwd_sweep O tp u0). rewrite Ht.
  unfold fwd1. cbn [lhs rhs]. rewrite (rhs_val_conv F Rth), Hdot, Htan. reflexivity.
Qed.
Lemma element_correct vals u (e : aexp (T:=T)) i :
  fst (value_and_gradient F (ainst vals e i)) = sem F (instantiate vals (to_scalar e i)) /\
  dot_ops F (snd (value_and_gradient F (ainst vals e i))) u = tangent F u (instantiate vals (to_scalar e i)).
Proof.
  destruct (value_and_gradient_correct F Rth Hdiv Hlit1 (ainst vals e i) u) as [Hv Hd].
  destruct (ainst_same vals u e i) as (_ & Hs & Ht). rewrite Hv, Hd, Hs, Ht. split; reflexivity.
Qed.
Hypothesis eqb_true : forall a b, oeqb O a b = true -> a = b.
Theorem areverse N tb ts n (e : aexp (T:=T)) vals0 y x :
  Forall (wf_stmt N) (snd (aexec F tb ts n e vals0)) -> (y < N)%nat -> (x < N)%nat ->
  rev_sweep O (snd (aexec F tb ts n e vals0)) (unit_vec O y) x = snd (dexec F (denoted tb ts n e) vals0 (unit_vec O x)) y.
Proof.
  intros Hw Hy Hx. etransitivity; [apply (reverse_entry_eq_forward_entry O Rth eqb_true N _ y x Hw Hy Hx)|].
  destruct (aexec_forward tb ts n e vals0 (unit_vec O x)) as [_ Ht]. rewrite Ht. reflexivity.
Qed.
End ArrayProofs.
