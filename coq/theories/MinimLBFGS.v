(* C18 / C19: control skeleton of the bounded L-BFGS driver (adept/minimize_limited_memory_bfgs.cpp,
   minimize_limited_memory_bfgs_bounded with its LbfgsData store), written statement by statement from the source over the
   abstract scalar type; it shares the line search, the distance to the nearest bound and the placement of variables on
   their bounds with MinimCG.v.  One iteration is split in stages as in MinimCG.v. *)
From Coq Require Import List Bool ZArith Lia.
From Adept Require Import Scalar Minim MinimCG.
Import ListNotations.
Local Open Scope Z_scope.

Section MinimLBFGS.
Context {T : Type} (O : Ops T).
Variable cost : list T -> T.
Variable grad : list T -> list T.
Variable norm2 : list T -> T.
Variable osqrt : T -> T.
Variable isfinite : T -> bool.
Variable ofz : Z -> T.          (* int -> Real conversion in the curvature coefficient *)

Notation vadd := (vadd O). Notation vscale := (vscale O). Notation vneg := (vneg O). Notation clamp := (clamp O).
Notation omax := (omax O). Notation omin := (omin O). Notation oabs := (oabs O).
Notation dot := (dot O). Notation vsub := (vsub O).

(* LbfgsData: per stored iteration the state difference, the gradient difference, rho and alpha; slot = iter mod ni *)
Record slot := mkSlot { h_xd : list T; h_gd : list T; h_rho : T; h_alpha : T }.
Definition empty_slot : slot := mkSlot [] [] (o0 O) (o0 O).
Definition slot_of (ni iter : Z) : nat := Z.to_nat (iter mod ni).
Definition get (ni : Z) (d : list slot) (iter : Z) : slot := nth (slot_of ni iter) d empty_slot.
Definition put (ni : Z) (d : list slot) (iter : Z) (sl : slot) : list slot := set_nth (slot_of ni iter) sl d.
(* store(iter, x_diff, gradient_diff): index (iter-1) % ni; ctiny = 10*DBL_MIN *)
Definition store (ctiny : T) (ni : Z) (d : list slot) (iter : Z) (xd gd : list T) : list slot :=
  let dp := dot xd gd in
  let rho := if oltb O ctiny (oabs dp) then odiv O (o1 O) dp
             else if oleb O (o0 O) dp then odiv O (o1 O) (omax dp ctiny)
             else odiv O (o1 O) (omin dp (oneg O ctiny)) in
  put ni d (iter - 1) (mkSlot xd gd rho (h_alpha (get ni d (iter - 1)))).

(* first loop of the two-loop recursion: ii = n-1 down to lowest *)
Fixpoint loop_down (cnt : nat) (ni : Z) (ii : Z) (d : list slot) (dir : list T) : list slot * list T :=
  match cnt with 0%nat => (d, dir) | S cnt' =>
    let sl := get ni d ii in
    let alpha := omul O (h_rho sl) (dot (h_xd sl) dir) in
    let d' := put ni d ii (mkSlot (h_xd sl) (h_gd sl) (h_rho sl) alpha) in
    let dir' := map2 (fun di gi => osub O di (omul O alpha gi)) dir (h_gd sl) in
    loop_down cnt' ni (ii - 1) d' dir'
  end.
Fixpoint loop_up (cnt : nat) (ni : Z) (ii : Z) (d : list slot) (dir : list T) : list T :=
  match cnt with 0%nat => dir | S cnt' =>
    let sl := get ni d ii in
    let beta := omul O (h_rho sl) (dot (h_gd sl) dir) in
    let dir' := map2 (fun di xi => oadd O di (omul O xi (osub O (h_alpha sl) beta))) dir (h_xd sl) in
    loop_up cnt' ni (ii + 1) d dir'
  end.

Record lb_state := mkLb { b_x : list T; b_gradient : list T; b_prev_x : list T; b_prev_g : list T; b_bs : list Z; b_utd : Z; b_step : T;
                          b_last_restart : Z; b_it : Z; b_samples : Z; b_cost : T; b_start : T; b_gn : T; b_data : list slot; b_log : list (event (T:=T)) }.
Record lbsettings := mkLbs { lb_cg : cgsettings (T:=T); lb_curv : T; lb_n_states : Z; lb_tiny : T }.

Definition lb_result (st : mstatus) (q : lb_state) (c : T) (log : list (event (T:=T))) : result (T:=T) :=
  mkResult st (b_x q) c (b_start q) (b_gn q) (b_it q) (b_samples q) (b_bs q) (b_gradient q) log.
Definition lb_finish (s : cgsettings (T:=T)) (st : mstatus) (q : lb_state) : result (T:=T) :=
  let '(c, lg) := cg_refresh cost s (b_utd q) (b_x q) (b_cost q) (b_log q) in lb_result st q c lg.

(* stage 3: after the line search *)
Definition lb_after_ls (s : cgsettings (T:=T)) (k : consts (T:=T)) (lo hi : list T) (q2 : lb_state) (bs1 : list Z) (g : list T) (last_restart inear itype : Z)
           (d : list slot) (log1 : list (event (T:=T))) (gn : T) (o : ls_out (T:=T)) : result (T:=T) + lb_state :=
  let log2 := log1 ++ ev_states (ls_log o) in
  let reached := match ls_status o with MBoundReached => true | _ => false end in
  let i := Z.to_nat inear in
  let xb := if 0 <? itype then nth i hi (o0 O) else nth i lo (o0 O) in
  let changed := reached && negb (oeqb O (nth i (ls_x o) (o0 O)) xb) in
  let x3 := if changed then set_nth i xb (ls_x o) else ls_x o in
  let bs3 := if reached then set_nth i itype bs1 else bs1 in
  let ls_st := if reached then MSuccess else ls_status o in
  let '(x4, bs4, anyhit, anychg) := snap_all O k lo hi x3 bs3 in
  let placed := changed || anychg in
  let cost4 := if placed then cost x4 else ls_cost_fn o in
  let utd4 := if placed then 0 else ls_utd o in
  let samples4 := if placed then ls_samples o + 1 else ls_samples o in
  let log3 := if placed then log2 ++ [EvCost x4] else log2 in
  let last_restart' := if reached || anyhit then b_it q2 + 1 else last_restart in
  let it' := b_it q2 + 1 in
  let status := match ls_st with MSuccess => MNotYetConverged | st => st end in
  let status' := match status with MNotYetConverged => if g_max_it s <=? it' then MMaxIterations else MNotYetConverged | _ => status end in
  let q3 := mkLb x4 (ls_gradient o) (b_x q2) g bs4 utd4 (ls_step o) last_restart' it' samples4 cost4 (b_start q2) gn d log3 in
  match status' with
  | MNotYetConverged => inr q3
  | _ => inl (lb_finish s status' q3)
  end.
(* stage 2: store the differences, two-loop recursion, curvature coefficient, nearest bound, line search *)
Definition lb_search (ls : lbsettings) (k : consts (T:=T)) (lo hi : list T) (q2 : lb_state) (bs1 : list Z) (g : list T) (cf gn : T)
           (last_restart : Z) (log1 : list (event (T:=T))) : result (T:=T) + lb_state :=
  let s := lb_cg ls in
  let ni := lb_n_states ls in
  let n := b_it q2 in
  let stored := last_restart <? n in
  let xd := vsub (b_x q2) (b_prev_x q2) in
  let gd := vsub g (b_prev_g q2) in
  let d1 := if stored then store (lb_tiny ls) ni (b_data q2) n xd gd else b_data q2 in
  let lowest := Z.max last_restart (n - ni) in
  let cnt := Z.to_nat (n - lowest) in
  let '(d2, dir) :=
    if stored then
      let '(d2, dir1) := loop_down cnt ni (n - 1) d1 g in
      let gamma := odiv O (dot xd gd) (omax (lb_tiny ls) (dot gd gd)) in
      let dir2 := vscale gamma dir1 in
      (d2, vneg (loop_up cnt ni lowest d2 dir2))
    else (d1, vscale (odiv O (b_step q2) (norm2 g)) (vneg g)) in
  let n_stored := n - last_restart in
  let curv := if n_stored <? ni
              then odiv O (oadd O (omul O (g_curv s) (ofz (ni - n_stored))) (omul O (lb_curv ls) (ofz n_stored))) (ofz ni)
              else lb_curv ls in
  let step := norm2 dir in
  let '(bstep, inear, itype) := nearest_bound O k step (b_x q2) lo hi dir 0 (cbig k, -1, 0) in
  let o := if 0 <=? inear
           then line_search O cost grad norm2 osqrt isfinite s k (Some (lo, hi)) (b_x q2) dir step curv bstep cf g (b_utd q2) (b_samples q2) []
           else line_search O cost grad norm2 osqrt isfinite s k None (b_x q2) dir step curv (oneg O (o1 O)) cf g (b_utd q2) (b_samples q2) [] in
  lb_after_ls s k lo hi q2 bs1 g last_restart inear itype d2 log1 gn o.
(* stage 1: evaluation, release of bound variables, convergence test *)
Definition lb_step (ls : lbsettings) (k : consts (T:=T)) (lo hi : list T) (q : lb_state) : result (T:=T) + lb_state :=
  let s := lb_cg ls in
  let need := b_utd q <? 1 in
  let cf := if need then cost (b_x q) else b_cost q in
  let g0 := if need then grad (b_x q) else b_gradient q in
  let q1 := if need then mkLb (b_x q) g0 (b_prev_x q) (b_prev_g q) (b_bs q) 1 (b_step q) (b_last_restart q) (b_it q) (b_samples q + 1) cf
                              (if b_it q =? 0 then cf else b_start q) (b_gn q) (b_data q) (b_log q ++ [EvCostGradHess (b_x q)])
            else q in
  if need && negb (isfinite cf) then inl (lb_finish s MInvalidCost q1)
  else if need && any_nonfinite isfinite g0 then inl (lb_finish s MInvalidGradient q1)
  else
    let rel := can_release O (b_bs q1) g0 in
    let bs1 := if rel then release1 O (b_bs q1) g0 else b_bs q1 in
    let last_restart := if rel then b_it q1 else b_last_restart q1 in
    let nfree := Z.of_nat (length bs1) - count_bound bs1 in
    let g := zero_bound O bs1 g0 in
    let gn := if 0 <? nfree then norm2 g else o0 O in
    let log1 := b_log q1 ++ [EvProgress (b_it q1) (b_x q1) cf gn] in
    let q2 := mkLb (b_x q1) g (b_prev_x q1) (b_prev_g q1) bs1 (b_utd q1) (b_step q1) last_restart (b_it q1) (b_samples q1) cf (b_start q1) gn (b_data q1) log1 in
    if oleb O gn (g_thr s) then inl (lb_finish s MSuccess q2)
    else lb_search ls k lo hi q2 bs1 g cf gn last_restart log1.
Fixpoint lb_loop (fuel : nat) (ls : lbsettings) (k : consts (T:=T)) (lo hi : list T) (q : lb_state) : result (T:=T) :=
  match fuel with 0%nat => lb_result MOutOfFuel q (b_cost q) (b_log q) | S fuel' =>
    match lb_step ls k lo hi q with
    | inl r => r
    | inr q' => lb_loop fuel' ls k lo hi q'
    end
  end.
Definition lbfgs_bounded (fuel : nat) (ls : lbsettings) (k : consts (T:=T)) (lo hi x : list T) (minus_one inf : T) : result (T:=T) :=
  if negb (valid_bounds O lo hi x) then mkResult MInvalidBounds x inf (o0 O) minus_one 0 0 [] [] []
  else
    let bs := initial_bs O lo hi x in
    let s := lb_cg ls in
    let step := if oltb O (o0 O) (g_max_step s) then g_max_step s else o1 O in
    let ni := lb_n_states ls in
    lb_loop fuel ls k lo hi
            (mkLb (clamp lo hi x) [] [] [] bs (-1) step 0 0 0 inf (o0 O) minus_one (repeat empty_slot (Z.to_nat ni)) []).

(* ================= L-BFGS, unbounded (minimize_limited_memory_bfgs) ================= *)
Definition lbu_step (ls : lbsettings) (k : consts (T:=T)) (q : lb_state) : result (T:=T) + lb_state :=
  let s := lb_cg ls in
  let ni := lb_n_states ls in
  let need := b_utd q <? 1 in
  let cf := if need then cost (b_x q) else b_cost q in
  let g := if need then grad (b_x q) else b_gradient q in
  let q1 := if need then mkLb (b_x q) g (b_prev_x q) (b_prev_g q) [] 1 (b_step q) 0 (b_it q) (b_samples q + 1) cf
                              (if b_it q =? 0 then cf else b_start q) (b_gn q) (b_data q) (b_log q ++ [EvCostGradHess (b_x q)])
            else q in
  if negb (isfinite cf) then inl (lb_finish s MInvalidCost q1)
  else if any_nonfinite isfinite g then inl (lb_finish s MInvalidGradient q1)
  else
    let gn := norm2 g in
    let log1 := b_log q1 ++ [EvProgress (b_it q1) (b_x q1) cf gn] in
    let q2 := mkLb (b_x q1) g (b_prev_x q1) (b_prev_g q1) [] (b_utd q1) (b_step q1) 0 (b_it q1) (b_samples q1) cf (b_start q1) gn (b_data q1) log1 in
    if oleb O gn (g_thr s) then inl (lb_finish s MSuccess q2)
    else
      let n := b_it q2 in
      let stored := 0 <? n in
      let xd := vsub (b_x q2) (b_prev_x q2) in
      let gd := vsub g (b_prev_g q2) in
      let d1 := if stored then store (lb_tiny ls) ni (b_data q2) n xd gd else b_data q2 in
      let lowest := Z.max 0 (n - ni) in
      let cnt := Z.to_nat (n - lowest) in
      let '(d2, dir) :=
        if stored then
          let '(d2, dir1) := loop_down cnt ni (n - 1) d1 g in
          let gamma := odiv O (dot xd gd) (omax (lb_tiny ls) (dot gd gd)) in
          (d2, vneg (loop_up cnt ni lowest d2 (vscale gamma dir1)))
        else (d1, vscale (odiv O (b_step q2) (norm2 g)) (vneg g)) in
      let curv := if n <? ni
                  then odiv O (oadd O (omul O (g_curv s) (ofz (ni - n))) (omul O (lb_curv ls) (ofz n))) (ofz ni)
                  else lb_curv ls in
      let step := norm2 dir in
      let o := line_search O cost grad norm2 osqrt isfinite s k None (b_x q2) dir step curv (oneg O (o1 O)) cf g (b_utd q2) (b_samples q2) [] in
      let log2 := log1 ++ ev_states (ls_log o) in
      let it' := n + 1 in
      let status := match ls_status o with MSuccess => MNotYetConverged | st => st end in
      let status' := match status with MNotYetConverged => if g_max_it s <=? it' then MMaxIterations else MNotYetConverged | _ => status end in
      let q3 := mkLb (ls_x o) (ls_gradient o) (b_x q2) g [] (ls_utd o) (ls_step o) 0 it' (ls_samples o) (ls_cost_fn o) (b_start q2) gn d2 log2 in
      match status' with
      | MNotYetConverged => inr q3
      | _ => inl (lb_finish s status' q3)
      end.
Fixpoint lbu_loop (fuel : nat) (ls : lbsettings) (k : consts (T:=T)) (q : lb_state) : result (T:=T) :=
  match fuel with 0%nat => lb_result MOutOfFuel q (b_cost q) (b_log q) | S fuel' =>
    match lbu_step ls k q with
    | inl r => r
    | inr q' => lbu_loop fuel' ls k q'
    end
  end.
Definition lbfgs_unbounded (fuel : nat) (ls : lbsettings) (k : consts (T:=T)) (x : list T) (minus_one inf : T) : result (T:=T) :=
  let s := lb_cg ls in
  let step := if oltb O (o0 O) (g_max_step s) then g_max_step s else o1 O in
  lbu_loop fuel ls k (mkLb x [] [] [] [] (-1) step 0 0 0 inf (o0 O) minus_one (repeat empty_slot (Z.to_nat (lb_n_states ls))) []).
End MinimLBFGS.
