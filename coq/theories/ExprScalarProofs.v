(* BinaryOpScalarLeft / BinaryOpScalarRight (ExprScalar.v, tables generated from the source) are the binary node of
   Expr.v with a passive leaf on the scalar's side: same value, same scratch vector, same pushed operations, for
   every child expression, every position in an enclosing tree (A, S), with and without multiplier. *)
From Coq Require Import ZArith List Bool Lia.
From Adept Require Import Scalar ExprDefs Expr ExprProofs ExprScalar.
From AdeptGen Require Import Gen_Ops.
Import ListNotations.
Local Open Scope Z_scope.

(* what the generated table of a wrapper class has to satisfy (decided on the generated constants in Properties_C01) *)
Definition snode_left_ok (nd : scalar_node) (ops : list bkind) : Prop :=
  (forall A S sr, a_of (fst (sn_store nd)) A 0 = a_of (fst (n_store_right nodes)) A 0 /\
                  s_of (snd (sn_store nd)) S 0 sr = s_of (snd (n_store_right nodes)) S 0 sr) /\
  (forall A, a_of (sn_value nd) A 0 = a_of (n_value_right nodes) A 0) /\
  (forall A S sr, a_of (fst (sn_fwd nd)) A 0 = A /\ s_of (snd (sn_fwd nd)) S 0 sr = S /\
                  a_of (fst (sn_fwd_m nd)) A 0 = A /\ s_of (snd (sn_fwd_m nd)) S 0 sr = S) /\
  (forall k, In k ops -> sn_store2 nd = true \/ p_store_result (policy_of k) <= 1).
Definition snode_right_ok (nd : scalar_node) (ops : list bkind) : Prop :=
  (forall A S nLa nLs sr, a_of (fst (sn_store nd)) A nLa = a_of (fst (n_store_left nodes)) A nLa /\
                  s_of (snd (sn_store nd)) S nLs sr = s_of (snd (n_store_left nodes)) S nLs sr) /\
  (forall A nLa, a_of (sn_value nd) A nLa = A) /\
  (forall A S nLa nLs sr, a_of (fst (sn_fwd nd)) A nLa = A /\ s_of (snd (sn_fwd nd)) S nLs sr = S /\
                  a_of (fst (sn_fwd_m nd)) A nLa = A /\ s_of (snd (sn_fwd_m nd)) S nLs sr = S) /\
  (forall k, In k ops -> sn_store2 nd = true \/ p_store_result (policy_of k) <= 1).

Section Proofs.
Context {T : Type} (F : FOps T).
Let O := fbase F.

Lemma sr_range k (e : expr (T:=T)) : 0 <= sn_sr k e <= 2.
Proof. unfold sn_sr. destruct (is_active e); [|lia]. destruct (policies_canonical k) as (_ & _ & _ & _ & H). exact H. Qed.

Lemma apply_rule_ext rl w A S nLa nLs sr scrS vs vs' der (gl gr gl' gr' : Z -> Z -> option T -> list (T * Z)) :
  (forall s a i, vs s a i = vs' s a i) ->
  (forall a s m, (match r_side rl with SL => gl | SR => gr end) a s m = (match r_side rl with SL => gl' | SR => gr' end) a s m) ->
  apply_rule F rl w A S nLa nLs sr scrS vs der gl gr = apply_rule F rl w A S nLa nLs sr scrS vs' der gl' gr'.
Proof.
  intros Hv Hg. unfold apply_rule.
  assert (E : forall m, eval_m F (wval F w) scrS vs (o0 (fbase F)) (o0 (fbase F)) der m = eval_m F (wval F w) scrS vs' (o0 (fbase F)) (o0 (fbase F)) der m)
    by (intros m; apply eval_m_ext; [reflexivity|exact Hv]).
  cbn zeta. destruct (r_guard rl) as [g|]; destruct (r_mult rl) as [m|]; cbn [option_map]; rewrite ?E, ?Hg; try reflexivity;
    match goal with |- (if ?b then _ else _) = _ => destruct b end; rewrite ?Hg; reflexivity.
Qed.

Section Left.
Variables (nd : scalar_node) (ops : list bkind).
Hypothesis OK : snode_left_ok nd ops.

Lemma left_value_store arrs k c (r : expr (T:=T)) A S scr : In k ops ->
  sn_value_store F nd true arrs k c r A S scr = value_store F arrs (XBin k (XPas c) r) A S scr.
Proof.
  intros Hin. destruct OK as (Hst & _ & _ & H2).
  unfold sn_value_store. cbn [value_store n_arrays n_scratch].
  assert (Hsr : eff_sr k (XPas c) r = sn_sr k r) by reflexivity. rewrite Hsr.
  destruct (Hst A S (sn_sr k r)) as (Ha & Hs). rewrite Ha, Hs.
  destruct (value_store F arrs r _ _ scr) as (vr, s1).
  pose proof (sr_range k r) as Hr.
  destruct (sn_sr k r =? 0) eqn:E0; [reflexivity|].
  destruct (sn_sr k r =? 1) eqn:E1.
  - apply Z.eqb_eq in E1. rewrite E1. cbn. reflexivity.
  - apply Z.eqb_neq in E0. apply Z.eqb_neq in E1. assert (E2 : sn_sr k r = 2) by lia. rewrite E2. cbn [Z.eqb Pos.eqb andb].
    destruct (H2 k Hin) as [Hs2|Hle].
    + rewrite Hs2. destruct (bop_store F k c vr). reflexivity.
    + exfalso. unfold sn_sr in E2. destruct (is_active r); lia.
Qed.

Lemma left_value_stored arrs k c (r : expr (T:=T)) A S scr :
  sn_value_stored F nd true arrs k c r A S scr = value_stored F arrs (XBin k (XPas c) r) A S scr.
Proof.
  destruct OK as (_ & Hv & _ & _).
  unfold sn_value_stored. cbn [value_stored value_at n_arrays].
  assert (Hsr : eff_sr k (XPas c) r = sn_sr k r) by reflexivity. rewrite Hsr, Hv. reflexivity.
Qed.

Lemma left_calc_gradient arrs k c (r : expr (T:=T)) A S scr w :
  sn_calc_gradient F nd true arrs k c r A S scr w = calc_gradient F arrs (XBin k (XPas c) r) A S scr w.
Proof.
  destruct OK as (_ & _ & Hf & _).
  unfold sn_calc_gradient. cbn [calc_gradient is_active n_arrays n_scratch app].
  destruct (Hf A S (p_store_result (policy_of k))) as (F1 & F2 & F3 & F4).
  assert (EA : a_of (fst match w with Some _ => sn_fwd_m nd | None => sn_fwd nd end) A 0 = A) by (destruct w; assumption).
  assert (ES : s_of (snd match w with Some _ => sn_fwd_m nd | None => sn_fwd nd end) S 0 (p_store_result (policy_of k)) = S) by (destruct w; assumption).
  rewrite EA, ES.
  destruct (is_active r); [|reflexivity].
  apply apply_rule_ext.
  - intros [] ai si; reflexivity.
  - set (rl := match w with Some _ => p_right_m (policy_of k) | None => p_right (policy_of k) end).
    assert (Hside : r_side rl = SR).
    { pose proof (policies_canonical k) as (_ & _ & CR & CRm & _). cbn zeta in *. unfold rule_at in *. destruct w; [apply CRm|apply CR]. }
    rewrite Hside. reflexivity.
Qed.
End Left.

Section Right.
Variables (nd : scalar_node) (ops : list bkind).
Hypothesis OK : snode_right_ok nd ops.

Lemma eff_sr_right k (l : expr (T:=T)) c : eff_sr k l (XPas c) = sn_sr k l.
Proof. unfold eff_sr, sn_sr. cbn [is_active]. rewrite orb_false_r. reflexivity. Qed.

Lemma right_value_store arrs k c (l : expr (T:=T)) A S scr : In k ops ->
  sn_value_store F nd false arrs k c l A S scr = value_store F arrs (XBin k l (XPas c)) A S scr.
Proof.
  intros Hin. destruct OK as (Hst & _ & _ & H2).
  unfold sn_value_store. cbn [value_store n_arrays n_scratch].
  rewrite eff_sr_right.
  destruct (Hst A S (n_arrays l) (n_scratch l) (sn_sr k l)) as (Ha & Hs). rewrite Ha, Hs.
  destruct (value_store F arrs l _ _ scr) as (vl, s1).
  pose proof (sr_range k l) as Hr.
  destruct (sn_sr k l =? 0) eqn:E0; [reflexivity|].
  destruct (sn_sr k l =? 1) eqn:E1.
  - apply Z.eqb_eq in E1. rewrite E1. cbn. reflexivity.
  - apply Z.eqb_neq in E0. apply Z.eqb_neq in E1. assert (E2 : sn_sr k l = 2) by lia. rewrite E2. cbn [Z.eqb Pos.eqb andb].
    destruct (H2 k Hin) as [Hs2|Hle].
    + rewrite Hs2. destruct (bop_store F k vl c). reflexivity.
    + exfalso. unfold sn_sr in E2. destruct (is_active l); lia.
Qed.

Lemma right_value_stored arrs k c (l : expr (T:=T)) A S scr :
  sn_value_stored F nd false arrs k c l A S scr = value_stored F arrs (XBin k l (XPas c)) A S scr.
Proof.
  destruct OK as (_ & Hv & _ & _).
  unfold sn_value_stored. cbn [value_stored value_at n_arrays].
  rewrite eff_sr_right, Hv. reflexivity.
Qed.

Lemma right_calc_gradient arrs k c (l : expr (T:=T)) A S scr w :
  sn_calc_gradient F nd false arrs k c l A S scr w = calc_gradient F arrs (XBin k l (XPas c)) A S scr w.
Proof.
  destruct OK as (_ & _ & Hf & _).
  unfold sn_calc_gradient. cbn [calc_gradient is_active n_arrays n_scratch]. rewrite app_nil_r.
  destruct (Hf A S (n_arrays l) (n_scratch l) (p_store_result (policy_of k))) as (F1 & F2 & F3 & F4).
  assert (EA : a_of (fst match w with Some _ => sn_fwd_m nd | None => sn_fwd nd end) A (n_arrays l) = A) by (destruct w; assumption).
  assert (ES : s_of (snd match w with Some _ => sn_fwd_m nd | None => sn_fwd nd end) S (n_scratch l) (p_store_result (policy_of k)) = S) by (destruct w; assumption).
  rewrite EA, ES.
  destruct (is_active l); [|reflexivity].
  apply apply_rule_ext.
  - intros [] ai si; reflexivity.
  - set (rl := match w with Some _ => p_left_m (policy_of k) | None => p_left (policy_of k) end).
    assert (Hside : r_side rl = SL).
    { pose proof (policies_canonical k) as (CL & CLm & _ & _ & _). cbn zeta in *. unfold rule_at in *. destruct w; [apply CLm|apply CL]. }
    rewrite Hside. reflexivity.
Qed.
End Right.

(* consequence: value and tangent of c op e and e op c through the wrapper classes (statement of C01_expression for them) *)
Section Consequence.
Variables (ndl ndr : scalar_node) (opsl opsr : list bkind).
Hypothesis OKL : snode_left_ok ndl opsl.
Hypothesis OKR : snode_right_ok ndr opsr.
Hypothesis Rth : Ring_theory.ring_theory (o0 O) (o1 O) (oadd O) (omul O) (osub O) (oneg O) (@eq T).
Hypothesis Hdiv : forall x y, odiv O x y = omul O x (odiv O (o1 O) y).
Hypothesis Hlit1 : flit F 1 1 = o1 O.

Definition sn_value_and_gradient (nd : scalar_node) (left : bool) (k : bkind) (c : T) (child : expr (T:=T)) : T * list (T * Z) :=
  let arrs := arrays_of child in
  let '(v, scr) := sn_value_store F nd left arrs k c child 0 0 (fun _ => o0 O) in
  (v, sn_calc_gradient F nd left arrs k c child 0 0 scr None).

Theorem scalar_left_correct k c (r : expr (T:=T)) u : In k opsl ->
  fst (sn_value_and_gradient ndl true k c r) = sem F (XBin k (XPas c) r) /\
  dot_ops F (snd (sn_value_and_gradient ndl true k c r)) u = tangent F u (XBin k (XPas c) r).
Proof.
  intros Hin. pose proof (value_and_gradient_correct F Rth Hdiv Hlit1 (XBin k (XPas c) r) u) as H.
  unfold value_and_gradient in H. unfold sn_value_and_gradient.
  change (arrays_of (XBin k (XPas c) r)) with (arrays_of r) in H.
  rewrite (left_value_store ndl opsl OKL _ _ _ _ _ _ _ Hin).
  destruct (value_store F (arrays_of r) (XBin k (XPas c) r) 0 0 _) as (v, scr).
  rewrite (left_calc_gradient ndl opsl OKL). exact H.
Qed.

Theorem scalar_right_correct k c (l : expr (T:=T)) u : In k opsr ->
  fst (sn_value_and_gradient ndr false k c l) = sem F (XBin k l (XPas c)) /\
  dot_ops F (snd (sn_value_and_gradient ndr false k c l)) u = tangent F u (XBin k l (XPas c)).
Proof.
  intros Hin. pose proof (value_and_gradient_correct F Rth Hdiv Hlit1 (XBin k l (XPas c)) u) as H.
  unfold value_and_gradient in H. unfold sn_value_and_gradient.
  assert (EA : arrays_of (XBin k l (XPas c)) = arrays_of l) by (cbn [arrays_of]; apply app_nil_r).
  rewrite EA in H.
  rewrite (right_value_store ndr opsr OKR _ _ _ _ _ _ _ Hin).
  destruct (value_store F (arrays_of l) (XBin k l (XPas c)) 0 0 _) as (v, scr).
  rewrite (right_calc_gradient ndr opsr OKR). exact H.
Qed.
End Consequence.
End Proofs.

(* the generated tables satisfy the conditions *)
Lemma generated_left_ok : snode_left_ok scalar_left_node scalar_left_ops.
Proof.
  unfold snode_left_ok. split; [|split; [|split]].
  - intros A S sr. unfold a_of, s_of. cbn. lia.
  - intros A. unfold a_of. cbn. lia.
  - intros A S sr. unfold a_of, s_of. cbn. lia.
  - intros k Hin. cbn in Hin.
    first [ left; reflexivity
          | right; repeat (destruct Hin as [<-|Hin]; [vm_compute; discriminate|]); destruct Hin ].
Qed.
Lemma generated_right_ok : snode_right_ok scalar_right_node scalar_right_ops.
Proof.
  unfold snode_right_ok. split; [|split; [|split]].
  - intros A S nLa nLs sr. unfold a_of, s_of. cbn. lia.
  - intros A nLa. unfold a_of. cbn. lia.
  - intros A S nLa nLs sr. unfold a_of, s_of. cbn. lia.
  - intros k Hin. cbn in Hin.
    first [ left; reflexivity
          | right; repeat (destruct Hin as [<-|Hin]; [vm_compute; discriminate|]); destruct Hin ].
Qed.
