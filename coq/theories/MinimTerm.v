(* C18, "the call terminates", Levenberg family over the real numbers: the inner loop raises the damping from its restart
   value by a factor > 1 until it passes the maximum, so it gives up or accepts within a number of trials that is
   logarithmic in d_max / d_low; with that much inner fuel and max_it outer fuel neither loop of the model runs out of
   fuel, for any cost function. *)
From Coq Require Import Reals Lra List Bool ZArith Lia.
From Adept Require Import Scalar Minim MinimProofs RealOps MinimReal.
Import ListNotations.
Local Open Scope R_scope.

Section Term.
Variable cost : list R -> R.
Variable grad : list R -> list R.
Variable hess : list R -> list (list R).
Variable solve : list (list R) -> list R -> list R.
Variable norm2 : list R -> R.
Variable isfinite : R -> bool.
Variable ofnat : nat -> R.
Variable s : settings (T:=R).
(* the damping values that can occur are 0 (or negative) or at least dlow; K multiplications take dlow beyond d_max *)
Variables (dlow : R) (K : nat).
Hypothesis dlow_pos : 0 < dlow.
Hypothesis mult_gt1 : 1 < d_mult s.
Hypothesis restart_ok : dlow <= d_restart s.
Hypothesis reach : d_max s <= dlow * d_mult s ^ K.

Definition dok (d : R) : Prop := d <= 0 \/ dlow <= d.

Lemma raise_spec d : raise_damping RO s d =
  if Rle_dec d 0 then Some (d_restart s) else if Rlt_dec d (d_max s) then Some (d * d_mult s) else None.
Proof. unfold raise_damping. cbn. unfold Rleb, Rltb. destruct (Rle_dec d 0); [reflexivity|]. destruct (Rlt_dec d (d_max s)); reflexivity. Qed.

(* with damping >= dlow * mult^j, K - j + 1 further trials suffice *)
Lemma lm_inner_fuel_pos : forall (m j : nat) fuel additive x g h ds cf d ps pm smp log,
  (j + m = K)%nat -> dlow * d_mult s ^ j <= d -> (m + 1 <= fuel)%nat ->
  lm_inner RO cost solve isfinite fuel s additive x g h ds cf d ps pm smp log <> IFuel.
Proof.
  induction m as [|m IH]; intros j fuel additive x g h ds cf d ps pm smp log Hj Hd Hf;
    (destruct fuel as [|fuel]; [lia|]); cbn [Minim.lm_inner]; destruct (damp_diag RO additive ds d ps pm h) as [[h' ps'] pm'];
    match goal with |- (if ?c then _ else _) <> _ => destruct c end; try discriminate; rewrite raise_spec;
    assert (Hp : 0 < dlow * d_mult s ^ j) by (apply Rmult_lt_0_compat; [exact dlow_pos|apply pow_lt; lra]);
    (destruct (Rle_dec d 0); [lra|]).
  - (* j = K: the damping has passed the maximum *)
    replace j with K in Hd by lia. destruct (Rlt_dec d (d_max s)); [lra|discriminate].
  - destruct (Rlt_dec d (d_max s)); [|discriminate]. apply (IH (S j)); [lia| |lia].
    cbn [pow]. replace (dlow * (d_mult s * d_mult s ^ j)) with ((dlow * d_mult s ^ j) * d_mult s) by ring. apply Rmult_le_compat_r; lra.
Qed.
Lemma lm_inner_fuel : forall fuel additive x g h ds cf d ps pm smp log, dok d -> (K + 2 <= fuel)%nat ->
  lm_inner RO cost solve isfinite fuel s additive x g h ds cf d ps pm smp log <> IFuel.
Proof.
  intros fuel additive x g h ds cf d ps pm smp log [Hd|Hd] Hf.
  - destruct fuel as [|fuel]; [lia|]. cbn [Minim.lm_inner]. destruct (damp_diag RO additive ds d ps pm h) as [[h' ps'] pm'].
    match goal with |- (if ?c then _ else _) <> _ => destruct c end; try discriminate. rewrite raise_spec.
    destruct (Rle_dec d 0); [|lra]. apply (lm_inner_fuel_pos K 0); [lia|cbn; lra|lia].
  - apply (lm_inner_fuel_pos K 0); [lia|cbn; lra|lia].
Qed.

Lemma lmb_inner_fuel_pos : forall (m j : nat) fuel additive lo hi x ifree sub_g sub_h ds cf d ps pm smp log,
  (j + m = K)%nat -> dlow * d_mult s ^ j <= d -> (m + 1 <= fuel)%nat ->
  lmb_inner RO cost solve isfinite fuel s additive lo hi x ifree sub_g sub_h ds cf d ps pm smp log <> BFuel.
Proof.
  induction m as [|m IH]; intros j fuel additive lo hi x ifree sub_g sub_h ds cf d ps pm smp log Hj Hd Hf;
    (destruct fuel as [|fuel]; [lia|]); cbn [Minim.lmb_inner]; destruct (damp_diag RO additive ds d ps pm sub_h) as [[h' ps'] pm'];
    destruct (fraction RO x lo hi _ ifree) as [[frac bt] ib];
    match goal with |- (if ?c then _ else _) <> _ => destruct c end; try discriminate; rewrite raise_spec;
    assert (Hp : 0 < dlow * d_mult s ^ j) by (apply Rmult_lt_0_compat; [exact dlow_pos|apply pow_lt; lra]);
    (destruct (Rle_dec d 0); [lra|]).
  - replace j with K in Hd by lia. destruct (Rlt_dec d (d_max s)); [lra|discriminate].
  - destruct (Rlt_dec d (d_max s)); [|discriminate]. apply (IH (S j)); [lia| |lia].
    cbn [pow]. replace (dlow * (d_mult s * d_mult s ^ j)) with ((dlow * d_mult s ^ j) * d_mult s) by ring. apply Rmult_le_compat_r; lra.
Qed.
Lemma lmb_inner_fuel : forall fuel additive lo hi x ifree sub_g sub_h ds cf d ps pm smp log, dok d -> (K + 2 <= fuel)%nat ->
  lmb_inner RO cost solve isfinite fuel s additive lo hi x ifree sub_g sub_h ds cf d ps pm smp log <> BFuel.
Proof.
  intros fuel additive lo hi x ifree sub_g sub_h ds cf d ps pm smp log [Hd|Hd] Hf.
  - destruct fuel as [|fuel]; [lia|]. cbn [Minim.lmb_inner]. destruct (damp_diag RO additive ds d ps pm sub_h) as [[h' ps'] pm'].
    destruct (fraction RO x lo hi _ ifree) as [[frac bt] ib].
    match goal with |- (if ?c then _ else _) <> _ => destruct c end; try discriminate. rewrite raise_spec.
    destruct (Rle_dec d 0); [|lra]. apply (lmb_inner_fuel_pos K 0); [lia|cbn; lra|lia].
  - apply (lmb_inner_fuel_pos K 0); [lia|cbn; lra|lia].
Qed.

(* ---- the damping stays in {<= 0} U [dlow, oo) along a whole run *)
Hypothesis div_pos : 0 < d_div s.
Hypothesis min_nonneg : 0 <= d_min s.
Hypothesis low_ok : dlow * d_div s <= d_min s.

Lemma raise_dok d d' : dok d -> raise_damping RO s d = Some d' -> dok d'.
Proof.
  intros Hd. rewrite raise_spec. destruct (Rle_dec d 0); [intros E; inversion E; right; exact restart_ok|].
  destruct (Rlt_dec d (d_max s)); [|discriminate]. intros E; inversion E. right. destruct Hd as [Hd|Hd]; [lra|].
  replace dlow with (dlow * 1) by ring. apply Rmult_le_compat; lra.
Qed.
Lemma lower_dok d : dok (lower_damping RO s d).
Proof.
  unfold lower_damping. cbn. unfold Rltb. destruct (Rlt_dec (d_min s) d); [|left; lra]. right.
  apply (Rmult_le_reg_r (d_div s)); [exact div_pos|]. unfold Rdiv. rewrite Rmult_assoc, Rinv_l by lra. lra.
Qed.
Lemma lmb_inner_dok fuel : forall additive lo hi x ifree sub_g sub_h ds cf d ps pm smp log nx nc d' smp' bt ib lg, dok d ->
  lmb_inner RO cost solve isfinite fuel s additive lo hi x ifree sub_g sub_h ds cf d ps pm smp log = BAccept nx nc d' smp' bt ib lg -> dok d'.
Proof.
  induction fuel as [|fuel IH]; intros additive lo hi x ifree sub_g sub_h ds cf d ps pm smp log nx nc d' smp' bt ib lg Hd; [discriminate|].
  cbn [Minim.lmb_inner]. destruct (damp_diag RO additive ds d ps pm sub_h) as [[h' ps'] pm']. destruct (fraction RO x lo hi _ ifree) as [[frac bt0] ib0].
  match goal with |- (if ?c then _ else _) = _ -> _ => destruct c end.
  - destruct (raise_damping RO s d) as [d1|] eqn:Er; [|discriminate]. apply IH. apply (raise_dok d d1 Hd Er).
  - intros E. inversion E. subst. exact Hd.
Qed.
Lemma lm_inner_dok fuel : forall additive x g h ds cf d ps pm smp log nx nc d' smp' lg, dok d ->
  lm_inner RO cost solve isfinite fuel s additive x g h ds cf d ps pm smp log = IAccept nx nc d' smp' lg -> dok d'.
Proof.
  induction fuel as [|fuel IH]; intros additive x g h ds cf d ps pm smp log nx nc d' smp' lg Hd; [discriminate|].
  cbn [Minim.lm_inner]. destruct (damp_diag RO additive ds d ps pm h) as [[h' ps'] pm'].
  match goal with |- (if ?c then _ else _) = _ -> _ => destruct c end.
  - destruct (raise_damping RO s d) as [d1|] eqn:Er; [|discriminate]. apply IH. apply (raise_dok d d1 Hd Er).
  - intros E. inversion E. subst. exact Hd.
Qed.

Lemma lmb_outer_inner_fuel fo : forall fi additive lo hi x held bs nbound d it samples start_cost gn log, dok d -> (K + 2 <= fi)%nat ->
  r_status (lmb_outer RO cost grad hess solve norm2 isfinite ofnat fo fi s additive lo hi x held bs nbound d it samples start_cost gn log) <> MInnerOutOfFuel.
Proof.
  induction fo as [|fo IH]; intros fi additive lo hi x held bs nbound d it samples start_cost gn log Hd Hf; [cbn; discriminate|].
  cbn [Minim.lmb_outer].
  destruct (negb (isfinite (cost x))); [destruct (Minim.refresh _ _ _ _ _ _); discriminate|].
  destruct (existsb _ (grad x)); [destruct (Minim.refresh _ _ _ _ _ _); discriminate|].
  destruct (in_play RO solve norm2 s additive held bs nbound (grad x) (hess x) _ d) as [[bs1 ifree] gn1].
  destruct (oleb RO gn1 (thr s)); [destruct (Minim.refresh _ _ _ _ _ _); discriminate|].
  match goal with |- context [lmb_inner RO cost solve isfinite fi s additive lo hi x ifree ?a ?b ?c ?e d ?f ?g ?h ?i] =>
    pose proof (lmb_inner_fuel fi additive lo hi x ifree a b c e d f g h i Hd Hf) as Hnf;
    pose proof (lmb_inner_dok fi additive lo hi x ifree a b c e d f g h i) as Hdk;
    destruct (lmb_inner RO cost solve isfinite fi s additive lo hi x ifree a b c e d f g h i) as [nx nc d' smp bt ib lg|st d' smp lg|] eqn:Ein end.
  - destruct (zge _ _); [destruct (Minim.refresh _ _ _ _ _ _); discriminate|]. apply IH; [apply lower_dok|exact Hf].
  - destruct (Minim.refresh _ _ _ _ _ _). cbn. apply (lmb_inner_stop_status RO cost solve isfinite) in Ein. destruct Ein; congruence.
  - contradiction Hnf; reflexivity.
Qed.

(* the bounded Levenberg family over the reals never runs out of fuel, outer or inner, when given max_it outer and K+2 inner fuel *)
Theorem lm_bounded_terminates fo fi additive lo hi x m1 inf : dok (d_start s) -> (0 < max_it s)%Z -> (Z.to_nat (max_it s) <= fo)%nat -> (K + 2 <= fi)%nat ->
  let r := lm_bounded RO cost grad hess solve norm2 isfinite ofnat fo fi s additive lo hi x m1 inf in
  r_status r <> MOutOfFuel /\ r_status r <> MInnerOutOfFuel.
Proof.
  intros Hd Hm Hfo Hfi r. unfold r, Minim.lm_bounded. destruct (valid_bounds RO lo hi x) eqn:Hv; cbn [negb]; [|cbn; split; discriminate].
  split; [apply lmb_outer_fuel; [lia|exact Hm|]; replace (max_it s - 0)%Z with (max_it s) by lia; exact Hfo|apply lmb_outer_inner_fuel; assumption].
Qed.
End Term.
