(* Interleaving models for C12 and C14.
   (1) access classes of process-wide state and the micro-steps of the reference-count protocol (the translator
       tools/gen_globals.py fills Gen_Globals.v with what the sources declare);
   (2) a machine in which T threads execute link / unlink operations on one shared Storage, each operation expanded
       into the micro-steps of add_link / remove_link, under an arbitrary schedule;
   (3) a machine of threads that only touch their own state (their stack, their arrays, the thread-local pointer);
   (4) a plain (non-atomic) counter incremented by several threads: load and store are separate steps. *)
From Coq Require Import ZArith List Bool.
Import ListNotations.
Local Open Scope Z_scope.

Inductive access := Plain | Atomic | ThreadLocal.
Inductive mstep :=
| MCheckNonZero                (* if (n_links_ == 0) throw *)
| MRmw (d : Z)                 (* n_links_ += d as one atomic read-modify-write *)
| MRmwDeleteIfZero (d : Z)     (* if ((n_links_ += d) == 0) delete this : one atomic read-modify-write, test on its result *)
| MLoadDeleteIfZero.           (* if (n_links_ == 0) delete this : a separate load *)

(* ---- (2) the shared Storage *)
Inductive lop := LAdd | LRemove.          (* copy-construct / link / slice a view ; destroy a view *)
Record thr := mkThr { prog : list lop; pend : list mstep; held : Z }.
Record rstate := mkR { links : Z; freed : Z; bad : Z; thrs : list thr }.

Fixpoint set_nth {A} (k : nat) (x : A) (l : list A) : list A :=
  match l, k with [], _ => [] | _ :: t, O => x :: t | h :: t, S k' => h :: set_nth k' x t end.
Definition dead_thr : thr := mkThr [] [] 0.

Section RefCount.
Variables (add_steps remove_steps : list mstep).
(* one micro-step of thread t on the shared count; an access after the Storage was deleted, or a failed check, is counted in [bad] *)
Definition micro (st : rstate) (k : nat) (t : thr) (m : mstep) (rest : list mstep) (pr : list lop) : rstate :=
  let uaf := if 0 <? freed st then 1 else 0 in
  match m with
  | MCheckNonZero => mkR (links st) (freed st) (bad st + uaf + (if links st =? 0 then 1 else 0)) (set_nth k (mkThr pr rest (held t)) (thrs st))
  | MRmw d => mkR (links st + d) (freed st) (bad st + uaf) (set_nth k (mkThr pr rest (held t + d)) (thrs st))
  | MRmwDeleteIfZero d => mkR (links st + d) (if links st + d =? 0 then freed st + 1 else freed st) (bad st + uaf) (set_nth k (mkThr pr rest (held t + d)) (thrs st))
  | MLoadDeleteIfZero => mkR (links st) (if links st =? 0 then freed st + 1 else freed st) (bad st + uaf) (set_nth k (mkThr pr rest (held t)) (thrs st))
  end.
(* the scheduler picks thread k: it continues its pending operation, or starts its next one (only while it still holds
   a view to copy from or to destroy) *)
Definition rstep (st : rstate) (k : nat) : rstate :=
  let t := nth k (thrs st) dead_thr in
  match pend t with
  | m :: rest => micro st k t m rest (prog t)
  | [] =>
      match prog t with
      | [] => st
      | o :: pr =>
          if 0 <? held t then
            match (match o with LAdd => add_steps | LRemove => remove_steps end) with
            | m :: rest => micro st k t m rest pr
            | [] => mkR (links st) (freed st) (bad st) (set_nth k (mkThr pr [] (held t)) (thrs st))
            end
          else st
      end
  end.
Definition rrun (sched : list nat) (st : rstate) : rstate := fold_left rstep sched st.
End RefCount.
Definition sum_held (l : list thr) : Z := fold_right (fun t a => held t + a) 0 l.
Definition rinit (l : list thr) : rstate := mkR (sum_held l) 0 0 l.
Definition quiescent (st : rstate) : Prop := Forall (fun t => prog t = [] /\ pend t = []) (thrs st).

(* ---- (3) threads that touch only their own state *)
Section Private.
Context {L Op : Type} (lstep : L -> Op -> L).
Record pthr := mkPT { pprog : list Op; plocal : L }.
Definition pstep1 (ts : list pthr) (k : nat) : list pthr :=
  match nth_error ts k with
  | Some t => match pprog t with o :: r => set_nth k (mkPT r (lstep (plocal t) o)) ts | [] => ts end
  | None => ts
  end.
Definition prun_sched (sched : list nat) (ts : list pthr) : list pthr := fold_left pstep1 sched ts.
Definition solo (t : pthr) : L := fold_left lstep (pprog t) (plocal t).
End Private.

(* ---- (4) a counter that is not atomic: x++ is a load followed by a store *)
Inductive cstep := CLoad | CStoreInc.
Record cthr := mkCT { cprog : list cstep; creg : Z }.
Record cstate := mkC { cval : Z; cthrs : list cthr }.
Definition cstep1 (st : cstate) (k : nat) : cstate :=
  match nth_error (cthrs st) k with
  | Some t => match cprog t with
              | CLoad :: r => mkC (cval st) (set_nth k (mkCT r (cval st)) (cthrs st))
              | CStoreInc :: r => mkC (creg t + 1) (set_nth k (mkCT r (creg t)) (cthrs st))
              | [] => st
              end
  | None => st
  end.
Definition crun (sched : list nat) (st : cstate) : cstate := fold_left cstep1 sched st.
(* two threads are about to access the same plain location and at least one access is a store *)
Definition racy (st : cstate) : Prop :=
  exists i j ti tj, i <> j /\ nth_error (cthrs st) i = Some ti /\ nth_error (cthrs st) j = Some tj /\
    cprog ti <> [] /\ (exists r, cprog tj = CStoreInc :: r).

(* ---- (5) the same counter when the increment is one atomic read-modify-write: thread k still has (nth k todo) increments to do *)
Definition astep1 (st : Z * list nat) (k : nat) : Z * list nat :=
  match nth_error (snd st) k with
  | Some (S m) => (fst st + 1, set_nth k m (snd st))
  | _ => st
  end.
Definition arun (sched : list nat) (st : Z * list nat) : Z * list nat := fold_left astep1 sched st.
Definition todo_total (l : list nat) : Z := fold_right (fun n a => Z.of_nat n + a) 0 l.
