(* solve and inv (adept/solve.cpp, adept/inv.cpp, adept/cpplapack.h): the operands are copied into fresh column-major
   arrays (a symmetric matrix into a fresh SymmMatrix), LAPACK is called on them, the overwritten right-hand side (or
   matrix) is returned.  LAPACK itself is an oracle here: a Section variable with the documented behaviour of
   ?gesv / ?sysv / ?getrf+?getri / ?sytrf+?sytri as hypothesis. *)
From Coq Require Import ZArith List Bool.
From Adept Require Import Scalar.
Import ListNotations.
Local Open Scope Z_scope.

(* shape expressions that occur as LAPACK arguments *)
Inductive larg := AD0 | AD1 | BD0 | BD1 | AO0 | AO1 | BO0 | BO1 | One.
Record lcall := mkCall { l_n : larg; l_nrhs : larg; l_lda : larg; l_ldb : larg }.
Inductive triangle := Upper | Lower.
Inductive ldsel := PassLda | PassLdb.
(* shapes of the working copies: A_ is n x n column-major (offsets 1, n), B_ is n x p column-major (offsets 1, n);
   a vector right-hand side is n x 1 *)
Record shapes := mkShapes { sn : Z; sp : Z }.
Definition eval_arg (s : shapes) (a : larg) : Z :=
  match a with AD0 => sn s | AD1 => sn s | BD0 => sn s | BD1 => sp s | AO0 => 1 | AO1 => sn s | BO0 => 1 | BO1 => sn s | One => 1 end.

Section Solve.
Context {T : Type} (O : Ops T).
Definition zsumS (n : Z) (f : Z -> T) : T := fold_left (fun a q => oadd O a (f (Z.of_nat q))) (seq 0 (Z.to_nat n)) (o0 O).
(* column-major storage *)
Definition cm (ld i j : Z) : Z := i + j * ld.
(* the working copies of logical operands A (n x n) and B (n x p) *)
Definition copy_cm (ld : Z) (M : Z -> Z -> T) : Z -> T := fun a => M (a mod ld) (a / ld).
(* what solve(A,B) returns, given the routine [gesv n nrhs a lda b ldb] that LAPACK provides (it returns the new contents of b) *)
Definition adept_solve (gesv : Z -> Z -> (Z -> T) -> Z -> (Z -> T) -> Z -> (Z -> T)) (c : lcall) (ldb_sel : ldsel)
    (s : shapes) (A B : Z -> Z -> T) : Z -> Z -> T :=
  let n := eval_arg s (l_n c) in let nrhs := eval_arg s (l_nrhs c) in
  let lda := eval_arg s (l_lda c) in let ldb := eval_arg s (l_ldb c) in
  let ldb_passed := match ldb_sel with PassLda => lda | PassLdb => ldb end in
  let x := gesv n nrhs (copy_cm (sn s) A) lda (copy_cm (sn s) B) ldb_passed in
  fun i j => x (cm (sn s) i j).
End Solve.
