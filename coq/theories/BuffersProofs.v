(* No recording event stores outside the capacities the code computes, from any initial capacity
   k >= 1, as long as the recording code respects the reservation discipline [safe]; and what is
   recorded does not depend on the capacities. *)
From Coq Require Import ZArith List Bool Lia.
From Adept Require Import Buffers.
Import ListNotations.
Local Open Scope Z_scope.
Local Arguments Z.mul : simpl never.
Local Arguments Z.add : simpl never.
Local Arguments Z.sub : simpl never.
Local Arguments Z.leb : simpl never.
Local Arguments Z.ltb : simpl never.
Local Arguments Z.max : simpl never.
Local Arguments Z.of_nat : simpl never.

(* invariant: the operation stack always keeps one free slot; capacities are positive *)
Definition BInv (b : buf) : Prop :=
  1 <= cap_ops b /\ 0 <= n_ops b < cap_ops b /\ 1 <= cap_st b /\ 0 <= n_st b <= cap_st b.
Definition slack (b : buf) : Z := cap_ops b - n_ops b - 1.

Lemma grow_ge cap min : 1 <= cap -> 0 <= min -> cap + min <= grow cap min /\ 2 * cap <= grow cap min.
Proof. intros H1 H2. unfold grow. destruct (Z.ltb_spec 0 min), (Z.ltb_spec (2 * cap) (cap + min)); simpl; lia. Qed.

Lemma init_inv k : 1 <= k -> BInv (binit k) /\ n_ops (binit k) = 0 /\ n_st (binit k) = 1.
Proof. intros Hk. unfold binit, bstep; simpl. destruct (Z.leb_spec k 0); [lia|]. simpl.
  destruct (Z.leb_spec k 0); [lia|]. simpl. unfold BInv; simpl. lia. Qed.

Ltac fin := unfold BInv; simpl; repeat split; try lia; try assumption.

(* one bstep under the credit discipline *)
Lemma step_safe b e c t : BInv b -> c <= slack b -> safe c (e :: t) = true ->
  exists c', snd (bstep b e) = false /\ BInv (fst (bstep b e)) /\ c' <= slack (fst (bstep b e)) /\ safe c' t = true.
Proof.
  intros (H1 & H2 & H3 & H4) Hc Hs. unfold slack in *. destruct e as [n|id|num stride id|id|n id|n|n]; cbn [safe] in Hs.
  - (* check_space *) exists (Z.max c n). unfold bstep.
    destruct (Z.ltb_spec (cap_ops b) (n_ops b + n + 1)); simpl.
    + destruct (Z_le_gt_dec 0 n).
      * pose proof (grow_ge (cap_ops b) n H1 l). fin.
      * assert (2 * cap_ops b <= grow (cap_ops b) n) by (unfold grow; destruct (Z.ltb_spec 0 n); simpl; lia).
        fin.
    + fin.
  - (* push_rhs *) apply andb_true_iff in Hs. destruct Hs as [Hs1 Hs2]. apply Z.leb_le in Hs1.
    exists (c - 1). unfold bstep. destruct (Z.leb_spec (cap_ops b) (n_ops b)); [lia|]. simpl.
    fin.
  - (* push_rhs_indices *) repeat (apply andb_true_iff in Hs; destruct Hs as [Hs ?]).
    rename Hs into Hnum. rename H5 into Hstr. rename H0 into Hcr. rename H into Hrest.
    apply Z.leb_le in Hnum. apply Z.leb_le in Hstr. apply Z.leb_le in Hcr.
    assert (0 <= (num - 1) * stride) by nia.
    exists (c - 1). unfold bstep. destruct (Z.leb_spec (cap_ops b) (n_ops b + (num - 1) * stride)); [lia|]. simpl.
    fin.
  - (* push_lhs *) exists c. unfold bstep.
    destruct (Z.leb_spec (cap_st b) (n_st b)) as [Hfull|Hfree].
    + pose proof (grow_ge (cap_st b) 0 H3 ltac:(lia)). destruct (Z.leb_spec (grow (cap_st b) 0) (n_st b)); [lia|]. simpl.
      fin.
    + destruct (Z.leb_spec (cap_st b) (n_st b)); [lia|]. simpl. fin.
  - (* push_lhs_range *) apply andb_true_iff in Hs. destruct Hs as [Hn Hs]. apply Z.leb_le in Hn.
    exists c. unfold bstep.
    destruct (Z.ltb_spec (cap_st b) (n_st b + n)) as [Hshort|Hfits].
    + pose proof (grow_ge (cap_st b) n H3 Hn). destruct (Z.ltb_spec (grow (cap_st b) n) (n_st b + n)); [lia|]. simpl.
      fin.
    + destruct (Z.ltb_spec (cap_st b) (n_st b + n)); [lia|]. simpl. fin.
  - (* preallocate_operations *) exists (Z.max c n). unfold bstep.
    destruct (Z.ltb_spec (cap_ops b) (n_ops b + n + 1)); simpl.
    + destruct (Z_le_gt_dec 0 n).
      * pose proof (grow_ge (cap_ops b) n H1 l). fin.
      * assert (2 * cap_ops b <= grow (cap_ops b) n) by (unfold grow; destruct (Z.ltb_spec 0 n); simpl; lia).
        fin.
    + fin.
  - (* preallocate_statements *) exists c. unfold bstep.
    destruct (Z.leb_spec (cap_st b) (n_st b + n + 1)); simpl.
    + assert (2 * cap_st b <= grow (cap_st b) n) by (unfold grow; destruct (Z.ltb_spec 0 n), (Z.ltb_spec (2 * cap_st b) (cap_st b + n)); simpl; lia).
      fin.
    + fin.
Qed.

Theorem run_safe tr : forall b c, BInv b -> c <= slack b -> safe c tr = true ->
  snd (brun b tr) = 0 /\ BInv (fst (brun b tr)).
Proof.
  induction tr as [|e t IH]; intros b c Hb Hc Hs; [simpl; auto|].
  destruct (step_safe b e c t Hb Hc Hs) as (c' & Hv & Hb' & Hc' & Hs').
  cbn [brun]. destruct (bstep b e) as [b' v] eqn:E. simpl in *. subst v.
  destruct (IH b' c' Hb' Hc' Hs') as [IH1 IH2]. destruct (brun b' t) as [b'' k]. simpl in *. split; [lia|exact IH2].
Qed.

(* from any initial capacity *)
Theorem no_violation_any_capacity k tr : 1 <= k -> safe 0 tr = true -> snd (brun (binit k) tr) = 0.
Proof. intros Hk Hs. destruct (init_inv k Hk) as (Hb & H0 & _).
  apply (run_safe tr (binit k) 0 Hb); [unfold slack; destruct Hb as (? & ? & _); lia|exact Hs]. Qed.

(* a reservation site is safe exactly when it pushes no more than it reserved *)
Lemma safe_pushes (l : list Z) t : forall c, 0 <= c ->
  safe c (map EPush l ++ t) = (Z.of_nat (length l) <=? c) && safe (c - Z.of_nat (length l)) t.
Proof. induction l as [|x l IH]; intros c Hc.
  - cbn [map app length]. change (Z.of_nat 0) with 0. rewrite Z.sub_0_r. destruct (Z.leb_spec 0 c); [reflexivity|lia].
  - cbn [map app safe length]. destruct (Z.leb_spec 1 c) as [H1|H1]; simpl.
    + rewrite IH by lia. rewrite Nat2Z.inj_succ.
      replace (c - 1 - Z.of_nat (length l)) with (c - Z.succ (Z.of_nat (length l))) by lia.
      destruct (Z.leb_spec (Z.of_nat (length l)) (c - 1)), (Z.leb_spec (Z.succ (Z.of_nat (length l))) c); try lia; reflexivity.
    + rewrite Nat2Z.inj_succ. destruct (Z.leb_spec (Z.succ (Z.of_nat (length l))) c); [lia|reflexivity].
Qed.

Theorem site_safe_iff R P : 0 <= R -> (safe 0 (site_trace R P) = true <-> Z.of_nat P <= R).
Proof.
  intros HR. unfold site_trace. cbn [safe]. rewrite Z.max_r by lia. rewrite safe_pushes by lia.
  rewrite map_length, seq_length. simpl. rewrite andb_true_r. apply Z.leb_le.
Qed.

(* and a site that pushes more than reserved + the one spare slot really does store out of
   bounds for some initial capacity (k = R+1: the buffer is exactly full when the site is entered) *)
Lemma run_nonneg tr : forall b, 0 <= snd (brun b tr).
Proof. induction tr as [|e t IH]; intros b; simpl; [lia|]. destruct (bstep b e) as [b1 v]. specialize (IH b1).
  destruct (brun b1 t) as [b2 k]. simpl in *. destruct v; lia. Qed.
Lemma run_app tr1 tr2 b : brun b (tr1 ++ tr2) = let '(b1, k1) := brun b tr1 in let '(b2, k2) := brun b1 tr2 in (b2, k1 + k2).
Proof. revert b. induction tr1 as [|e t IH]; intros b; simpl.
  - destruct (brun b tr2) as [b2 k2]. reflexivity.
  - destruct (bstep b e) as [b' v]. rewrite IH. destruct (brun b' t) as [b1 k1]. destruct (brun b1 tr2) as [b2 k2]. f_equal. lia.
Qed.
Lemma run_pushes_fit (l : list Z) : forall b, n_ops b + Z.of_nat (length l) <= cap_ops b ->
  n_ops (fst (brun b (map EPush l))) = n_ops b + Z.of_nat (length l) /\ cap_ops (fst (brun b (map EPush l))) = cap_ops b.
Proof.
  induction l as [|x l IH]; intros b H; [simpl; lia|]. cbn [map brun length] in *. unfold bstep.
  rewrite Nat2Z.inj_succ in H. destruct (Z.leb_spec (cap_ops b) (n_ops b)); [lia|].
  set (b1 := mkBuf (n_ops b + 1) (cap_ops b) (n_st b) (cap_st b) (ops_rec b ++ [x]) (st_rec b)).
  specialize (IH b1). simpl in IH. destruct (brun b1 (map EPush l)) as [b2 k]. simpl in *.
  rewrite Nat2Z.inj_succ. destruct IH as [IH1 IH2]; [lia|]. lia.
Qed.
Lemma run_push_full x t b : cap_ops b <= n_ops b -> 0 < snd (brun b (EPush x :: t)).
Proof. intros H. cbn [brun]. unfold bstep. destruct (Z.leb_spec (cap_ops b) (n_ops b)); [|lia].
  pose proof (run_nonneg t b). destruct (brun b t) as [b2 k]. simpl in *. lia. Qed.

Theorem site_overflows R P : 0 <= R -> R + 1 < Z.of_nat P ->
  0 < snd (brun (binit (R + 1)) (site_trace R P)).
Proof.
  intros HR HP. destruct (init_inv (R + 1) ltac:(lia)) as (_ & H0 & _).
  assert (cap_ops (binit (R + 1)) = R + 1) as Hcap.
  { unfold binit, bstep; simpl. destruct (Z.leb_spec (R + 1) 0); [lia|]. simpl. destruct (Z.leb_spec (R+1) 0); [lia|]. reflexivity. }
  set (b := binit (R + 1)) in *.
  unfold site_trace. cbn [brun]. unfold bstep. rewrite H0, Hcap.
  destruct (Z.ltb_spec (R + 1) (0 + R + 1)); [lia|].
  set (ids := map Z.of_nat (seq 0 P)).
  assert (Z.of_nat (length ids) = Z.of_nat P) as Hlen by (unfold ids; rewrite map_length, seq_length; reflexivity).
  set (l1 := firstn (Z.to_nat (R + 1)) ids). set (l2 := skipn (Z.to_nat (R + 1)) ids).
  assert (ids = l1 ++ l2) as E by (symmetry; apply firstn_skipn).
  assert (Z.of_nat (length l1) = R + 1) as Hl1 by (unfold l1; rewrite firstn_length; lia).
  assert (l2 <> []) as Hl2.
  { intro Hnil. assert (length ids = length l1 + length l2)%nat as HL by (rewrite E at 1; apply app_length).
    rewrite Hnil in HL. simpl in HL. lia. }
  rewrite E, map_app, <- app_assoc, run_app.
  destruct (run_pushes_fit l1 b) as [F1 F2]; [rewrite H0, Hcap; lia|].
  pose proof (run_nonneg (map EPush l1) b) as Hk1.
  destruct (brun b (map EPush l1)) as [b1 k1]. simpl in F1, F2, Hk1.
  destruct l2 as [|x l2']; [congruence|]. cbn [map app].
  pose proof (run_push_full x (map EPush l2' ++ [ELhs 0]) b1 ltac:(rewrite F1, F2, H0, Hcap; lia)) as Hf.
  destruct (brun b1 (EPush x :: map EPush l2' ++ [ELhs 0])) as [b2 k2]. simpl in *. lia.
Qed.

(* what is recorded does not depend on the capacities (preallocate_* affect speed only) *)
Definition same_content (b1 b2 : buf) : Prop :=
  n_ops b1 = n_ops b2 /\ n_st b1 = n_st b2 /\ ops_rec b1 = ops_rec b2 /\ st_rec b1 = st_rec b2.
Definition is_prealloc (e : ev) : bool := match e with EPreOps _ | EPreSt _ => true | _ => false end.

Lemma step_same_content b1 b2 e : same_content b1 b2 -> snd (bstep b1 e) = false -> snd (bstep b2 e) = false ->
  same_content (fst (bstep b1 e)) (fst (bstep b2 e)).
Proof.
  intros (E1 & E2 & E3 & E4) V1 V2. unfold same_content. destruct e as [n|id|num stride id|id|n id|n|n]; unfold bstep in *.
  - destruct (Z.ltb_spec (cap_ops b1) (n_ops b1 + n + 1)), (Z.ltb_spec (cap_ops b2) (n_ops b2 + n + 1)); simpl; auto.
  - destruct (Z.leb_spec (cap_ops b1) (n_ops b1)), (Z.leb_spec (cap_ops b2) (n_ops b2)); simpl in *; try discriminate.
    rewrite E1, E3. auto.
  - destruct (Z.leb_spec (cap_ops b1) (n_ops b1 + (num - 1) * stride)), (Z.leb_spec (cap_ops b2) (n_ops b2 + (num - 1) * stride)); simpl in *; try discriminate.
    rewrite E1, E3. auto.
  - destruct (Z.leb_spec (if cap_st b1 <=? n_st b1 then grow (cap_st b1) 0 else cap_st b1) (n_st b1)),
             (Z.leb_spec (if cap_st b2 <=? n_st b2 then grow (cap_st b2) 0 else cap_st b2) (n_st b2)); simpl in *; try discriminate.
    rewrite E1, E2, E4. auto.
  - destruct (Z.ltb_spec (if cap_st b1 <? n_st b1 + n then grow (cap_st b1) n else cap_st b1) (n_st b1 + n)),
             (Z.ltb_spec (if cap_st b2 <? n_st b2 + n then grow (cap_st b2) n else cap_st b2) (n_st b2 + n)); simpl in *; try discriminate.
    rewrite E1, E2, E4. auto.
  - destruct (Z.ltb_spec (cap_ops b1) (n_ops b1 + n + 1)), (Z.ltb_spec (cap_ops b2) (n_ops b2 + n + 1)); simpl; auto.
  - destruct (Z.leb_spec (cap_st b1) (n_st b1 + n + 1)), (Z.leb_spec (cap_st b2) (n_st b2 + n + 1)); simpl; auto.
Qed.

(* a preallocate call changes no content at all *)
Lemma prealloc_content b e : is_prealloc e = true -> same_content b (fst (bstep b e)) /\ snd (bstep b e) = false.
Proof. destruct e; try discriminate; intros _; unfold bstep, same_content.
  - destruct (Z.ltb_spec (cap_ops b) (n_ops b + n + 1)); simpl; auto.
  - destruct (Z.leb_spec (cap_st b) (n_st b + n + 1)); simpl; auto.
Qed.

Theorem same_recording_any_capacity tr : forall b1 b2 c1 c2,
  BInv b1 -> BInv b2 -> c1 <= slack b1 -> c2 <= slack b2 -> safe c1 tr = true -> safe c2 tr = true ->
  same_content b1 b2 -> same_content (fst (brun b1 tr)) (fst (brun b2 tr)).
Proof.
  induction tr as [|e t IH]; intros b1 b2 c1 c2 I1 I2 S1 S2 F1 F2 HC; [exact HC|].
  destruct (step_safe b1 e c1 t I1 S1 F1) as (c1' & V1 & I1' & S1' & F1').
  destruct (step_safe b2 e c2 t I2 S2 F2) as (c2' & V2 & I2' & S2' & F2').
  pose proof (step_same_content b1 b2 e HC V1 V2) as HC'.
  cbn [brun]. destruct (bstep b1 e) as [b1' v1]. destruct (bstep b2 e) as [b2' v2]. simpl in *.
  specialize (IH b1' b2' c1' c2' I1' I2' S1' S2' F1' F2' HC').
  destruct (brun b1' t) as [x1 k1]. destruct (brun b2' t) as [x2 k2]. exact IH.
Qed.

Theorem same_recording_from_any_initial_capacity k1 k2 tr : 1 <= k1 -> 1 <= k2 -> safe 0 tr = true ->
  same_content (fst (brun (binit k1) tr)) (fst (brun (binit k2) tr)).
Proof.
  intros H1 H2 Hs. destruct (init_inv k1 H1) as (I1 & A1 & B1). destruct (init_inv k2 H2) as (I2 & A2 & B2).
  apply (same_recording_any_capacity tr _ _ 0 0); auto.
  - unfold slack. destruct I1 as (? & ? & _). lia.
  - unfold slack. destruct I2 as (? & ? & _). lia.
  - unfold same_content. repeat split; try lia.
    + unfold binit, bstep; simpl. destruct (Z.leb_spec k1 0), (Z.leb_spec k2 0); try lia. simpl.
      destruct (Z.leb_spec k1 0), (Z.leb_spec k2 0); try lia. reflexivity.
    + unfold binit, bstep; simpl. destruct (Z.leb_spec k1 0), (Z.leb_spec k2 0); try lia. simpl.
      destruct (Z.leb_spec k1 0), (Z.leb_spec k2 0); try lia. reflexivity.
Qed.

(* credits compose: a safe prefix followed by a self-contained safe block is safe *)
Lemma safe_mono tr : forall c c', c <= c' -> safe c tr = true -> safe c' tr = true.
Proof.
  induction tr as [|e t IH]; intros c c' Hc H; [reflexivity|]. destruct e; cbn [safe] in *.
  - apply (IH (Z.max c n)); [lia|exact H].
  - apply andb_true_iff in H. destruct H as [H1 H2]. apply Z.leb_le in H1. apply andb_true_iff. split; [apply Z.leb_le; lia|].
    apply (IH (c - 1)); [lia|exact H2].
  - apply andb_true_iff in H. destruct H as [H Hrest]. apply andb_true_iff in H. destruct H as [H Hcr].
    apply andb_true_iff in H. destruct H as [Hnum Hstr]. apply Z.leb_le in Hnum. apply Z.leb_le in Hstr. apply Z.leb_le in Hcr.
    repeat (apply andb_true_iff; split); try (apply Z.leb_le; lia). apply (IH (c - 1)); [lia|assumption].
  - apply (IH c); assumption.
  - apply andb_true_iff in H. destruct H as [H1 H2]. apply andb_true_iff. split; [exact H1|]. apply (IH c); assumption.
  - apply (IH (Z.max c n)); [lia|exact H].
  - apply (IH c); assumption.
Qed.
Lemma safe_app t1 : forall c t2, 0 <= c -> safe c t1 = true -> safe 0 t2 = true -> safe c (t1 ++ t2) = true.
Proof.
  induction t1 as [|e t IH]; intros c t2 Hc H1 H2; [simpl; apply (safe_mono t2 0 c Hc H2)|].
  destruct e; cbn [app safe] in *.
  - apply IH; [lia|exact H1|exact H2].
  - apply andb_true_iff in H1. destruct H1 as [Ha Hb]. apply Z.leb_le in Ha. apply andb_true_iff. split; [apply Z.leb_le; exact Ha|].
    apply IH; [lia|exact Hb|exact H2].
  - apply andb_true_iff in H1. destruct H1 as [H1 Hrest]. apply andb_true_iff in H1. destruct H1 as [H1 Hcr].
    apply andb_true_iff in H1. destruct H1 as [Hnum Hstr]. apply Z.leb_le in Hnum. apply Z.leb_le in Hstr. apply Z.leb_le in Hcr.
    assert (0 <= (num - 1) * stride) by nia.
    repeat (apply andb_true_iff; split); try (apply Z.leb_le; lia). apply IH; [lia|assumption|exact H2].
  - apply IH; assumption.
  - apply andb_true_iff in H1. destruct H1 as [Ha Hb]. apply andb_true_iff. split; [exact Ha|]. apply IH; assumption.
  - apply IH; [lia|exact H1|exact H2].
  - apply IH; assumption.
Qed.

Theorem reserved_site_safe_in_context R P k prefix : 0 <= R -> Z.of_nat P <= R -> 1 <= k -> safe 0 prefix = true ->
  snd (brun (binit k) (prefix ++ site_trace R P)) = 0.
Proof.
  intros HR HP Hk Hpre. apply no_violation_any_capacity; [exact Hk|].
  apply safe_app; [lia|exact Hpre|]. apply site_safe_iff; assumption.
Qed.
