(* What tools/gen_stack.py emits (Gen_Stack.v): the bodies of the gradient-list bookkeeping functions of adept::Stack as
   command lists, and their execution on an abstract bookkeeping state: the four counters, the initialised flag, the TRUE
   length of the gradient buffer (as opposed to the field that records it), the ranges of the buffer that were set to zero
   or accessed, the exception thrown, the calls made.  An access beyond the true length sets [b_oob]. *)
From Coq Require Import ZArith List Bool.
Import ListNotations.
Local Open Scope Z_scope.

Inductive sfield := FMax | FAlloc | FInit | FIgrad.     (* max_gradient_, n_allocated_gradients_, n_gradients_initialized_, i_gradient_ *)
Inductive sexp := SField (f : sfield) | SLit (z : Z) | SAdd (a b : sexp) | SSub (a b : sexp) | SParam | SParamStart | SLoopVar.
Inductive scmpop := OLt | OGt | OLe | OGe.
Inductive scond := CCmp (o : scmpop) (a b : sexp) | CNot (c : scond) | CFlag | CHaveBuffer.
Inductive sexc := XNotInit | XRange.
Inductive scall := CInitialize | CExtend | CClearStack | CClearIndep | CClearDep | CClearGrad | CSweepRev | CSweepFwd.
Inductive slist := LIndep | LDep.
Inductive scmd :=
| SAssign (f : sfield) (e : sexp)
| SSetFlag (b : bool)
| SIf (c : scond) (t e : list scmd)
| SZero (a b : sexp)            (* for (i = a; i < b; i++) gradient_[i] = 0.0 *)
| SDelete | SNew (n : sexp)     (* delete[] gradient_;  gradient_ = new Real[n] *)
| SNewTmp (n : sexp) | SCopyToNew (a b : sexp) | SAdoptTmp
| SStoreUser (a b : sexp) | SLoadUser (a b : sexp)
| SThrow (x : sexc)
| SCall (c : scall)
| SClearList (l : slist)
| SNullStatement.

Inductive sevent := EvZero (a b : Z) | EvAccess (a b : Z) | EvCall (c : scall) | EvClear (l : slist) | EvNull.
Record bk := mkBk {
  b_max : Z; b_alloc : Z; b_init : Z; b_igrad : Z; b_flag : bool;
  b_len : Z;              (* true length of gradient_ (0 when there is none) *)
  b_have : bool; b_tmp : option Z;
  b_err : option sexc; b_oob : bool; b_log : list sevent      (* most recent first *)
}.
Definition get (s : bk) (f : sfield) : Z := match f with FMax => b_max s | FAlloc => b_alloc s | FInit => b_init s | FIgrad => b_igrad s end.
Definition set (s : bk) (f : sfield) (v : Z) : bk :=
  match f with
  | FMax => mkBk v (b_alloc s) (b_init s) (b_igrad s) (b_flag s) (b_len s) (b_have s) (b_tmp s) (b_err s) (b_oob s) (b_log s)
  | FAlloc => mkBk (b_max s) v (b_init s) (b_igrad s) (b_flag s) (b_len s) (b_have s) (b_tmp s) (b_err s) (b_oob s) (b_log s)
  | FInit => mkBk (b_max s) (b_alloc s) v (b_igrad s) (b_flag s) (b_len s) (b_have s) (b_tmp s) (b_err s) (b_oob s) (b_log s)
  | FIgrad => mkBk (b_max s) (b_alloc s) (b_init s) v (b_flag s) (b_len s) (b_have s) (b_tmp s) (b_err s) (b_oob s) (b_log s)
  end.
Definition upd_rest (s : bk) (flag : bool) (len : Z) (have : bool) (tmp : option Z) (err : option sexc) (oob : bool) (log : list sevent) : bk :=
  mkBk (b_max s) (b_alloc s) (b_init s) (b_igrad s) flag len have tmp err oob log.
Fixpoint seval (pstart pend : Z) (s : bk) (e : sexp) : Z :=
  match e with
  | SField f => get s f | SLit z => z | SAdd a b => seval pstart pend s a + seval pstart pend s b | SSub a b => seval pstart pend s a - seval pstart pend s b
  | SParam => pend | SParamStart => pstart | SLoopVar => 0
  end.
Fixpoint ceval (pstart pend : Z) (s : bk) (c : scond) : bool :=
  match c with
  | CCmp o a b => let x := seval pstart pend s a in let y := seval pstart pend s b in
                  match o with OLt => x <? y | OGt => y <? x | OLe => x <=? y | OGe => y <=? x end
  | CNot c' => negb (ceval pstart pend s c')
  | CFlag => b_flag s | CHaveBuffer => b_have s
  end.
(* a range [a,b) of the buffer of true length len is touched: out of bounds when non-empty and b > len (or a < 0) *)
Definition range_oob (a b len : Z) : bool := (a <? b) && ((len <? b) || (a <? 0)).

Section Run.
(* continuation-passing execution: a conditional hands the rest of the program to both branches, so that evaluation on a
   symbolic state yields a tree of conditionals with explicit states at the leaves; a throw drops the continuation *)
Variables (pstart pend : Z) (call_init call_ext : bk -> (bk -> bk) -> bk).
Fixpoint exec (c : scmd) (s : bk) (k : bk -> bk) {struct c} : bk :=
  match c with
  | SAssign f e => k (set s f (seval pstart pend s e))
  | SSetFlag b => k (upd_rest s b (b_len s) (b_have s) (b_tmp s) (b_err s) (b_oob s) (b_log s))
  | SIf cnd t e =>
      let execl := fix execl (l : list scmd) (s : bk) (k : bk -> bk) {struct l} : bk :=
                     match l with [] => k s | c' :: l' => exec c' s (fun s' => execl l' s' k) end in
      if ceval pstart pend s cnd then execl t s k else execl e s k
  | SZero a b => let x := seval pstart pend s a in let y := seval pstart pend s b in
      k (upd_rest s (b_flag s) (b_len s) (b_have s) (b_tmp s) (b_err s) (b_oob s || range_oob x y (b_len s)) (EvZero x y :: b_log s))
  | SDelete => k (upd_rest s (b_flag s) 0 false (b_tmp s) (b_err s) (b_oob s) (b_log s))
  | SNew n => k (upd_rest s (b_flag s) (seval pstart pend s n) true (b_tmp s) (b_err s) (b_oob s) (b_log s))
  | SNewTmp n => k (upd_rest s (b_flag s) (b_len s) (b_have s) (Some (seval pstart pend s n)) (b_err s) (b_oob s) (b_log s))
  | SCopyToNew a b => let x := seval pstart pend s a in let y := seval pstart pend s b in
      k (upd_rest s (b_flag s) (b_len s) (b_have s) (b_tmp s) (b_err s)
               (b_oob s || range_oob x y (b_len s) || range_oob x y (match b_tmp s with Some n => n | None => 0 end)) (b_log s))
  | SAdoptTmp => k (upd_rest s (b_flag s) (match b_tmp s with Some n => n | None => 0 end) true None (b_err s) (b_oob s) (b_log s))
  | SStoreUser a b | SLoadUser a b => let x := seval pstart pend s a in let y := seval pstart pend s b in
      k (upd_rest s (b_flag s) (b_len s) (b_have s) (b_tmp s) (b_err s) (b_oob s || range_oob x y (b_len s)) (EvAccess x y :: b_log s))
  | SThrow x => upd_rest s (b_flag s) (b_len s) (b_have s) (b_tmp s) (Some x) (b_oob s) (b_log s)
  | SCall CInitialize => call_init s k
  | SCall CExtend => call_ext s k
  | SCall CClearGrad => k (upd_rest s false (b_len s) (b_have s) (b_tmp s) (b_err s) (b_oob s) (EvCall CClearGrad :: b_log s))
  | SCall CSweepRev => k (upd_rest s (b_flag s) (b_len s) (b_have s) (b_tmp s) (b_err s) (b_oob s || range_oob 0 (b_max s) (b_len s)) (EvCall CSweepRev :: b_log s))
  | SCall CSweepFwd => k (upd_rest s (b_flag s) (b_len s) (b_have s) (b_tmp s) (b_err s) (b_oob s || range_oob 0 (b_max s) (b_len s)) (EvCall CSweepFwd :: b_log s))
  | SCall c0 => k (upd_rest s (b_flag s) (b_len s) (b_have s) (b_tmp s) (b_err s) (b_oob s) (EvCall c0 :: b_log s))
  | SClearList l => k (upd_rest s (b_flag s) (b_len s) (b_have s) (b_tmp s) (b_err s) (b_oob s) (EvClear l :: b_log s))
  | SNullStatement => k (upd_rest s (b_flag s) (b_len s) (b_have s) (b_tmp s) (b_err s) (b_oob s) (EvNull :: b_log s))
  end.
Fixpoint execl (l : list scmd) (s : bk) (k : bk -> bk) : bk :=
  match l with [] => k s | c :: l' => exec c s (fun s' => execl l' s' k) end.
Definition run (l : list scmd) (s : bk) : bk := execl l s (fun x => x).
End Run.
