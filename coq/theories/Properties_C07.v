(* C07 — array data lives while referenced; only copy-construction and link share it.
   Model Storage.v (Storage.h; constructors, assignment, link, resize, clear, destructor of Array.h). *)
From Coq Require Import ZArith List Bool Arith.
From Adept Require Import Storage StorageProofs StorageGen.
From AdeptGen Require Import Gen_Globals.
Import ListNotations.
Local Open Scope Z_scope.

(* over EVERY history of life-cycle operations: for each Storage not yet deleted the link count equals the
   number of live array objects that own a link to it (and is at least 1); no owner refers to a deleted
   Storage; the number of existing Storage objects is created - deleted; no link operation ever touches a
   deleted Storage (no double free) *)
Theorem C07_invariant_every_history : forall nslots buffers ops, Inv (srun nslots buffers ops).
Proof. exact run_inv. Qed.
Print Assumptions C07_invariant_every_history.

Theorem C07_no_double_free : forall nslots buffers ops, faults (srun nslots buffers ops) = 0.
Proof. intros. exact (inv_flt _ (run_inv nslots buffers ops)). Qed.
Print Assumptions C07_no_double_free.

(* the data behind every live owning array is valid *)
Theorem C07_no_dangling_owner : forall nslots buffers ops i s, let st := srun nslots buffers ops in
  (i < length (arrs st))%nat -> live (get_arr st i) = true -> owns (get_arr st i) = true -> plc (get_arr st i) = PSto s ->
  (s < length (stos st))%nat /\ freed (get_sto st s) = false /\ links (get_sto st s) = refs (arrs st) s /\ 1 <= links (get_sto st s).
Proof. intros nslots buffers ops i s st. exact (owner_data_alive st i s (run_inv nslots buffers ops)). Qed.
Print Assumptions C07_no_dangling_owner.

(* library-owned data is released: once the last array object is gone, created = deleted *)
Theorem C07_no_leak : forall nslots buffers ops, let st := srun nslots buffers ops in
  (forall i, (i < length (arrs st))%nat -> live (get_arr st i) = false) -> created st = deleted st.
Proof. intros nslots buffers ops st. exact (no_leak st (run_inv nslots buffers ops)). Qed.
Print Assumptions C07_no_leak.

(* "=" (copy assignment, move from an owning temporary, from a temporary on user memory, from an rvalue
   slice) never makes the target refer to memory it did not refer to before: its data stays where it was
   or moves to a Storage created by this operation - so later changes to the source, or to external or
   stack memory the source pointed at, cannot show through the target *)
Theorem C07_assignment_owns : forall st o i, is_assignment o i = true ->
  plc (get_arr (sstep st o) i) = plc (get_arr st i) \/
  exists s, plc (get_arr (sstep st o) i) = PSto s /\ (length (stos st) <= s)%nat.
Proof. exact assignment_keeps_or_freshens. Qed.
Print Assumptions C07_assignment_owns.

(* non-vacuity: share three ways, assign, move, release out of order *)
Example C07_example :
  let ops := [ANew 0 3 5; ACopy 1 0; ASlice 2 0 1 2; AEmpty 3; AAssign 3 2; AMoveExt 3 0; AMoveOwn 3 2 8; ALink 3 1; ADestroy 0; ADestroy 1; AClear 2] in
  let st := srun 6 [[900;901;902;903]] ops in
  created st - deleted st = 1 /\ links (get_sto st 0) = 1 /\ plc (get_arr st 3) = PSto 0%nat /\ faults st = 0.
Proof. vm_compute. repeat split. Qed.

(* Tie G.  The link operations as read from Storage.h on every run (micro-steps of add_link / remove_link, the count a
   constructor starts with), run by one thread, are the model's: add_link adds exactly one; remove_link on a count >= 1
   does not throw, subtracts exactly one and deletes the object exactly when the result is zero (and on a count of zero it
   throws and changes nothing); a new Storage starts with the generated initial count. *)
Theorem C07_generated_link_operations : forall st s,
  freed (get_sto st s) = false -> (s < length (stos st))%nat ->
  (let o := get_sto (add_link st s) s in
   links o = l_links (seq_run add_link_steps (links (get_sto st s))) /\ freed o = false /\ cells o = cells (get_sto st s)) /\
  (1 <= links (get_sto st s) ->
   let r := seq_run remove_link_steps (links (get_sto st s)) in
   let o := get_sto (remove_link st s) s in
   l_threw r = false /\ links o = l_links r /\ freed o = l_deleted r /\ cells o = cells (get_sto st s) /\
   deleted (remove_link st s) = (if l_deleted r then deleted st + 1 else deleted st) /\
   faults (remove_link st s) = faults st) /\
  seq_run remove_link_steps 0 = mkL 0 false true /\
  (forall n v, links (get_sto (fst (new_sto st n v)) (snd (new_sto st n v))) = initial_links).
Proof.
  intros st s Hf Hs.
  exact (conj (model_add_link_is_generated st s Hf Hs)
        (conj (model_remove_link_is_generated st s Hf Hs)
        (conj (generated_remove_link 0) (model_new_storage_is_generated st)))).
Qed.
Print Assumptions C07_generated_link_operations.
