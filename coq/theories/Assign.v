(* Passive array statements of adept::Array (Array.h:403-470, 568-573, 583-645, 2818-2870, 3111-3196;
   IndexedArray.h; noalias.h; spread.h; outer_product.h; reduce.h): what is read, in which order it is
   written, and when a temporary copy is made.  Memory is a map from (parent array, element offset) to a
   value; a view is a View.view into one parent. *)
From Coq Require Import ZArith List Bool.
From Adept Require Import View.
Import ListNotations.
Local Open Scope Z_scope.

Definition loc := (nat * Z)%type.                      (* parent id, offset inside that parent's data *)
Definition mem := nat -> Z -> Z.
Definition upd (m : mem) (p : nat) (a : Z) (x : Z) : mem :=
  fun p' a' => if Nat.eqb p' p && (a' =? a) then x else m p' a'.

Record pview := mkPV { par : nat; vw : view }.

(* all multi-indices of given extents, last index fastest (the order of the assignment loops) *)
Fixpoint indices (ds : list Z) : list (list Z) :=
  match ds with
  | [] => [[]]
  | d :: rest => flat_map (fun i => map (fun t => Z.of_nat i :: t) (indices rest)) (seq 0 (Z.to_nat d))
  end.

Inductive binop := BAdd | BSub | BMul | BMax | BMin | BGt.   (* BGt: comparison, 1 or 0 (masks) *)
Definition bin (o : binop) (a b : Z) : Z :=
  match o with BAdd => a + b | BSub => a - b | BMul => a * b | BMax => Z.max a b | BMin => Z.min a b
             | BGt => if b <? a then 1 else 0 end.

(* right-hand-side expressions; every node has the rank of the statement *)
Inductive aexp :=
| ELeaf (v : pview)
| EScalar (c : Z)
| ENeg (e : aexp)
| EBin (o : binop) (a b : aexp)
| ENoAlias (e : aexp)
| ESpread (d : nat) (e : aexp)          (* spread<d>(e, n): result index with position d removed indexes e *)
| EOuter (a b : aexp).                  (* outer_product(a,b)(i,j) = a(i)*b(j) *)

Fixpoint remove_at {A} (k : nat) (l : list A) : list A :=
  match l, k with [], _ => [] | _ :: t, O => t | h :: t, S k' => h :: remove_at k' t end.

Fixpoint eval (e : aexp) (m : mem) (idx : list Z) : Z :=
  match e with
  | ELeaf v => m (par v) (addr (vw v) idx)
  | EScalar c => c
  | ENeg a => - eval a m idx
  | EBin o a b => bin o (eval a m idx) (eval b m idx)
  | ENoAlias a => eval a m idx
  | ESpread d a => eval a m (remove_at d idx)
  | EOuter a b => match idx with [i; j] => eval a m [i] * eval b m [j] | _ => 0 end
  end.

(* Array::data_range (Array.h:2304-2315): lowest and highest offset a view can address *)
Fixpoint range_go (ds ss : list Z) (lo hi : Z) : Z * Z :=
  match ds, ss with
  | d :: ds', s :: ss' => if 0 <=? s then range_go ds' ss' lo (hi + (d - 1) * s) else range_go ds' ss' (lo + (d - 1) * s) hi
  | _, _ => (lo, hi)
  end.
Definition data_range (v : view) : Z * Z := range_go (dims v) (strides v) (base v) (base v).

(* is_aliased(mem1,mem2) of each node: arrays compare address ranges (same parent only), operators ask
   their arguments, noalias answers false *)
Fixpoint is_aliased (e : aexp) (p : nat) (lo hi : Z) : bool :=
  match e with
  | ELeaf v => Nat.eqb (par v) p && (let '(b, t) := data_range (vw v) in (b <=? hi) && (lo <=? t))
  | EScalar _ => false
  | ENeg a => is_aliased a p lo hi
  | EBin _ a b => is_aliased a p lo hi || is_aliased b p lo hi
  | ENoAlias _ => false
  | ESpread _ a => is_aliased a p lo hi
  | EOuter a b => is_aliased a p lo hi || is_aliased b p lo hi
  end.

(* store a list of values through the target view, in index order *)
Fixpoint store_list (t : pview) (idxs : list (list Z)) (vals : list Z) (m : mem) : mem :=
  match idxs, vals with
  | i :: is', x :: xs => store_list t is' xs (upd m (par t) (addr (vw t) i) x)
  | _, _ => m
  end.
(* the assignment loop: evaluate element, store it, next element (assign_expression_) *)
Fixpoint assign_loop (t : pview) (e : aexp) (idxs : list (list Z)) (m : mem) : mem :=
  match idxs with
  | [] => m
  | i :: is' => assign_loop t e is' (upd m (par t) (addr (vw t) i) (eval e m i))
  end.

(* t = e  (Array::operator=(Expression)): copy through a temporary when the alias test fires *)
Definition assign (t : pview) (e : aexp) (m : mem) : mem :=
  let idxs := indices (dims (vw t)) in
  let '(lo, hi) := data_range (vw t) in
  if is_aliased e (par t) lo hi
  then store_list t idxs (map (eval e m) idxs) m
  else assign_loop t e idxs m.
(* t op= e  is  t = noalias(t) op e  (ADEPT_DEFINE_OPERATOR, Array.h:568-577, FixedArray.h; the same idiom as IndexedArray,
   SpecialMatrix and where): only the target's own term is hidden from the alias test.  Until the repair of the compound
   assignment it was t = noalias(t op e), kept here as [assign_op_old] *)
Definition assign_op (o : binop) (t : pview) (e : aexp) (m : mem) : mem :=
  assign t (EBin o (ENoAlias (ELeaf t)) e) m.
Definition assign_op_old (o : binop) (t : pview) (e : aexp) (m : mem) : mem :=
  assign t (ENoAlias (EBin o (ELeaf t) e)) m.

(* what the property demands: evaluate the whole right-hand side on the initial memory, then store *)
Definition assign_spec (t : pview) (e : aexp) (m : mem) : mem :=
  let idxs := indices (dims (vw t)) in store_list t idxs (map (eval e m) idxs) m.
Definition assign_op_spec (o : binop) (t : pview) (e : aexp) (m : mem) : mem :=
  assign_spec t (EBin o (ELeaf t) e) m.

(* scalar fill (assign_inactive_scalar_) *)
Definition fill (t : pview) (c : Z) (m : mem) : mem :=
  let idxs := indices (dims (vw t)) in store_list t idxs (map (fun _ => c) idxs) m.

(* t.where(mask) = e : Array.h:583-645, 3111-3196: alias test on e and on the mask, then element by element
   "if mask then store" *)
Fixpoint where_loop (t : pview) (mask e : aexp) (idxs : list (list Z)) (m : mem) : mem :=
  match idxs with
  | [] => m
  | i :: is' => where_loop t mask e is' (if eval mask m i =? 0 then m else upd m (par t) (addr (vw t) i) (eval e m i))
  end.
Definition assign_where (t : pview) (mask e : aexp) (m : mem) : mem :=
  let idxs := indices (dims (vw t)) in
  let '(lo, hi) := data_range (vw t) in
  if is_aliased e (par t) lo hi || is_aliased mask (par t) lo hi
  then (* both are copied to temporaries first *)
       let ev := map (eval e m) idxs in let mv := map (eval mask m) idxs in
       fold_left (fun mm imx => let '(i, (mk, x)) := imx in if mk =? 0 then mm else upd mm (par t) (addr (vw t) i) x)
                 (combine idxs (combine mv ev)) m
  else where_loop t mask e idxs m.
Definition where_spec (t : pview) (mask e : aexp) (m : mem) : mem :=
  let idxs := indices (dims (vw t)) in
  let ev := map (eval e m) idxs in let mv := map (eval mask m) idxs in
  fold_left (fun mm imx => let '(i, (mk, x)) := imx in if mk =? 0 then mm else upd mm (par t) (addr (vw t) i) x)
            (combine idxs (combine mv ev)) m.

(* reductions over all elements in index order *)
Definition reduce_all (f : Z -> Z -> Z) (z0 : Z) (e : aexp) (ds : list Z) (m : mem) : Z :=
  fold_left (fun acc i => f acc (eval e m i)) (indices ds) z0.
