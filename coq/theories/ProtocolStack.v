(* The model Protocol.v (C10 / C11) updates its counters and raises its exception kinds exactly as the bookkeeping code
   translated from Stack.cpp / Stack.h does (Gen_Stack.v, executed by StackDefs.v), operation by operation. *)
From Coq Require Import ZArith List Bool Lia Arith.
From Adept Require Import Scalar Tape Protocol ProtocolProofs StackDefs StackProofs.
From AdeptGen Require Import Gen_Stack.
Import ListNotations.

Section Link.
Context {T : Type} (O : Ops T).
Local Open Scope Z_scope.
Definition proj (ig : Z) (st : pstate (T:=T)) : bk :=
  mkBk (Z.of_nat (ngrad st)) (Z.of_nat (nalloc st)) (Z.of_nat (ninit st)) ig (init st) (Z.of_nat (nalloc st)) (0 <? Z.of_nat (nalloc st)) None None false [].
Definition same_counters (st : pstate (T:=T)) (b : bk) : Prop :=
  b_max b = Z.of_nat (ngrad st) /\ b_alloc b = Z.of_nat (nalloc st) /\ b_init b = Z.of_nat (ninit st) /\ b_flag b = init st.
Definition kind_of (x : sexc) : ekind := match x with XNotInit => ENotInit | XRange => ERange end.
Definition cap (st : pstate (T:=T)) : Prop := init st = true -> (ninit st <= nalloc st)%nat.

Lemma good_proj ig st : cap st -> good (proj ig st).
Proof.
  intros Hc. unfold good, proj. cbn [b_len b_alloc b_max b_init b_flag b_err b_tmp b_oob b_have].
  repeat split; try reflexivity; try lia; intros H; first [specialize (Hc H); lia | apply Z.ltb_ge in H; lia].
Qed.

Lemma initialize_counters ig st : cap st -> same_counters (initialize O st) (do_initialize (proj ig st)).
Proof.
  intros Hc. destruct (initialize_spec (proj ig st) (good_proj ig st Hc)) as (_ & F & I & M & _ & A & _).
  unfold same_counters, initialize. cbn [ngrad nalloc ninit init]. cbn [proj b_max b_alloc] in *.
  repeat split; try assumption. rewrite A. lia.
Qed.

(* set_gradient of the object with index i *)
Theorem seed_matches ig st i x : cap st ->
  let st' := pstep O st (OSeed i x) in let r := do_set (Z.of_nat i) (Z.of_nat i + 1) (proj ig st) in
  same_counters st' r /\ b_oob r = false /\
  match b_err r with None => errs st' = errs st | Some e => errs st' = kind_of e :: errs st end.
Proof.
  intros Hc. cbv zeta.
  destruct (set_gradients_spec (proj ig st) (Z.of_nat i) (Z.of_nat i + 1) (good_proj ig st Hc) ltac:(lia)) as (Ho & _ & Fl & Ei & Ea & Em & Ee & _).
  cbn [proj b_flag] in *.
  assert (S1 : same_counters (if init st then st else initialize O st) (if init st then proj ig st else do_initialize (proj ig st))).
  { destruct (init st) eqn:E; [unfold same_counters, proj; cbn; repeat split; try reflexivity; symmetry; exact E|apply initialize_counters; exact Hc]. }
  destruct S1 as (Sm & Sa & Si & Sf).
  set (st1 := if init st then st else initialize O st) in *.
  assert (E1 : errs st1 = errs st) by (unfold st1; destruct (init st); reflexivity).
  assert (F1 : init st1 = true) by (unfold st1; destruct (init st) eqn:E; [exact E|reflexivity]).
  assert (M1 : ngrad st1 = ngrad st) by (unfold st1; destruct (init st); reflexivity).
  cbn [pstep]. fold st1. rewrite Si in Ee. rewrite Ee. rewrite Si in Ei. rewrite Sa in Ea.
  destruct (Nat.ltb_spec i (ninit st1)) as [Hlt|Hge].
  - assert (Ez : (Z.of_nat (ninit st1) <? Z.of_nat i + 1) = false) by (apply Z.ltb_ge; lia). rewrite Ez.
    unfold same_counters. cbn [ngrad nalloc ninit init errs]. repeat split; try congruence; try lia; try (rewrite Em, M1; reflexivity).
  - assert (Ez : (Z.of_nat (ninit st1) <? Z.of_nat i + 1) = true) by (apply Z.ltb_lt; lia). rewrite Ez.
    unfold same_counters, add_err. cbn [ngrad nalloc ninit init errs kind_of]. repeat split; try congruence; try lia; try (rewrite Em, M1; reflexivity).
Qed.

(* get_gradient of the object with index i *)
Theorem read_matches ig st i : cap st ->
  let r := do_get (Z.of_nat i) (Z.of_nat i + 1) (proj ig st) in
  b_oob r = false /\ option_map kind_of (b_err r) = obs_gradient_error st i.
Proof.
  intros Hc. cbv zeta.
  destruct (get_gradients_spec (proj ig st) (Z.of_nat i) (Z.of_nat i + 1) (good_proj ig st Hc) ltac:(lia)) as (Ho & _ & _ & _ & _ & Ee & _).
  split; [exact Ho|]. rewrite Ee. cbn [proj b_flag b_init]. unfold obs_gradient_error.
  destruct (init st); cbn [negb]; [|reflexivity].
  destruct (Nat.ltb_spec i (ninit st)) as [Hlt|Hge].
  - assert (Ez : (Z.of_nat (ninit st) <? Z.of_nat i + 1) = false) by (apply Z.ltb_ge; lia). rewrite Ez. reflexivity.
  - assert (Ez : (Z.of_nat (ninit st) <? Z.of_nat i + 1) = true) by (apply Z.ltb_lt; lia). rewrite Ez. reflexivity.
Qed.

(* the two sweeps *)
Theorem sweeps_match ig st : cap st ->
  let r := do_adjoint (proj ig st) in
  b_oob r = false /\ b_oob (do_tangent (proj ig st)) = false /\
  match b_err r with
  | None => init st = true /\ same_counters (pstep O st OReverse) r /\ same_counters (pstep O st OForward) r /\
            errs (pstep O st OReverse) = errs st /\ errs (pstep O st OForward) = errs st
  | Some e => init st = false /\ errs (pstep O st OReverse) = kind_of e :: errs st /\ errs (pstep O st OForward) = kind_of e :: errs st
  end.
Proof.
  intros Hc. cbv zeta.
  destruct (sweeps_spec (proj ig st) (good_proj ig st Hc)) as (Ho & Ho' & Ee & _ & Hs).
  split; [exact Ho|]. split; [exact Ho'|]. rewrite Ee. cbn [proj b_flag] in *.
  destruct (init st) eqn:Ei.
  - destruct (Hs eq_refl) as (_ & _ & Hi & Hm & _ & Ha & Ef).
    destruct (extend_spec (proj ig st) (good_proj ig st Hc) Ei) as (_ & _ & _ & _ & _ & Hea & _).
    cbn [proj b_init b_max b_alloc] in *.
    split; [reflexivity|]. cbn [pstep]. rewrite Ei. unfold same_counters, extend. cbn [ngrad nalloc ninit init errs].
    assert (Ea : b_alloc (do_adjoint (proj ig st)) = Z.of_nat (Nat.max (nalloc st) (ngrad st))).
    { rewrite Ha, Hea. specialize (Hc Ei). destruct (Z.of_nat (ninit st) <? Z.of_nat (ngrad st)) eqn:E; [lia|]. apply Z.ltb_ge in E. lia. }
    repeat split; try assumption; try reflexivity.
  - cbn [pstep]. rewrite Ei. repeat split.
Qed.

Theorem new_recording_matches ig st : cap st -> 0 <= ig + 1 ->
  let r := do_new_recording (proj ig st) in
  b_flag r = init (pstep O st (ONewRecording (Z.to_nat ig))) /\ b_max r = Z.of_nat (ngrad (pstep O st (ONewRecording (Z.to_nat ig)))) \/ ig < 0.
Proof.
  intros Hc Hp. cbv zeta. destruct (Z.ltb_spec ig 0) as [Hn|Hn]; [right; exact Hn|left].
  destruct (new_recording_spec (proj ig st) (good_proj ig st Hc) Hp) as (_ & F & M & _).
  cbn [pstep ngrad init]. split; [exact F|]. rewrite M. cbn [proj b_igrad]. lia.
Qed.
Theorem clear_gradients_matches ig st : cap st ->
  same_counters (pstep O st OClearGradients) (do_clear_gradients (proj ig st)).
Proof.
  intros Hc. destruct (clear_gradients_spec (proj ig st) (good_proj ig st Hc)) as (_ & F & M & I & A).
  unfold same_counters. cbn [pstep ngrad nalloc ninit init proj b_max b_init b_alloc] in *. repeat split; assumption.
Qed.

(* every reachable state of the model satisfies the hypothesis of the theorems above *)
Lemma reachable_cap ops : cap (prun O ops (pinit O)).
Proof.
  assert (forall l st, CapInv st -> CapInv (prun O l st)) as Hrun.
  { induction l as [|o l IH]; intros st H; [exact H|]. cbn. apply IH, pstep_cap, H. }
  destruct (Hrun ops (pinit O)) as [_ H]; [unfold CapInv; cbn; split; [reflexivity|intros Hf; discriminate]|exact H].
Qed.
End Link.
