(* Proofs about the blocked Jacobian drivers (Jacobian.v): lane-wise correctness of the multi-lane
   kernels, and for each routine (serial/OpenMP, forward/reverse) that its list of writes is a
   permutation of the canonical list  { (i, j, i*dep_off + j*indep_off, J(i,j)) }  - every cell
   exactly once, with the entry obtained by a unit-vector tangent (resp. adjoint) pass. *)
From Coq Require Import List Arith Lia Ring Bool ZArith Permutation.
From Adept Require Import Scalar Tape TapeAdjoint Jacobian.
Import ListNotations.

(* ---------- generic list facts ---------- *)
Lemma nth_map_seq {A} (f : nat -> A) nl i d : i < nl -> nth i (map f (seq 0 nl)) d = f i.
Proof. intros H. rewrite (nth_indep _ d (f 0)) by (rewrite map_length, seq_length; exact H).
  rewrite map_nth. rewrite seq_nth by exact H. reflexivity. Qed.
Lemma existsb_false_all {A} (f : A -> bool) l : existsb f l = false -> forall x, In x l -> f x = false.
Proof. intros H x Hx. destruct (f x) eqn:E; [|reflexivity].
  assert (existsb f l = true) by (apply existsb_exists; eauto). congruence. Qed.
Lemma length_flat_map_const {A B} (f : A -> list B) l k : (forall x, In x l -> length (f x) = k) ->
  length (flat_map f l) = length l * k.
Proof. induction l as [|x l IH]; intros H; simpl; [reflexivity|].
  rewrite app_length, H by (left; reflexivity). rewrite IH by (intros; apply H; right; assumption). lia. Qed.

Lemma NoDup_app_intro {A} (l1 l2 : list A) : NoDup l1 -> NoDup l2 -> (forall x, In x l1 -> In x l2 -> False) -> NoDup (l1 ++ l2).
Proof. induction l1 as [|x l1 IH]; intros H1 H2 H; simpl; [exact H2|]. inversion H1; subst. constructor.
  - intro Hin. apply in_app_or in Hin. destruct Hin; [contradiction|]. apply (H x); [left; reflexivity|assumption].
  - apply IH; [assumption|assumption|]. intros y Hy. apply H. right. exact Hy. Qed.

Section JacP.
Context {T : Type} (O : Ops T).
Hypothesis Rth : ring_theory (o0 O) (o1 O) (oadd O) (omul O) (osub O) (oneg O) (@eq T).
Hypothesis eqb_true : forall a b, oeqb O a b = true -> a = b.
Add Ring Tring2 : Rth.
Variable M : nat.
Hypothesis Mpos : 1 <= M.
Variable t : tape (T:=T).
Variables indeps deps : list nat.
Notation n := (length indeps). Notation m := (length deps).
Notation Z0' := (o0 O).

(* ---------- forward kernel, lane by lane ---------- *)
Lemma fwd1m_lane nl s g i : i < nl -> forall j, fwd1m O nl s g j i = fwd1 O s (lane g i) j.
Proof. intros Hi j. unfold fwd1m, fwd1, upd, lane. destruct (Nat.eqb_spec j (lhs s)); simpl.
  - apply Nat.ltb_lt in Hi. rewrite Hi. apply Nat.ltb_lt in Hi. rewrite nth_map_seq by exact Hi. reflexivity.
  - reflexivity. Qed.
Lemma fwd1m_other nl s g i : nl <= i -> forall j, fwd1m O nl s g j i = g j i.
Proof. intros Hi j. unfold fwd1m. apply Nat.ltb_ge in Hi. rewrite Hi, andb_false_r. reflexivity. Qed.

Lemma fwdm_lane_gen nl : forall (tt : tape) g i, i < nl -> forall j,
  fold_left (fun g s => fwd1m O nl s g) tt g j i = fwd_sweep O tt (lane g i) j.
Proof. induction tt as [|s tt IH]; intros g i Hi j; simpl; [reflexivity|].
  rewrite IH by exact Hi. apply (fwd_ext O). intros k. apply fwd1m_lane. exact Hi. Qed.
Lemma fwdm_lane nl g i : i < nl -> forall j, fwdm O t nl g j i = fwd_sweep O t (lane g i) j.
Proof. intros. apply fwdm_lane_gen; assumption. Qed.

(* ---------- reverse kernel, lane by lane ---------- *)
Lemma rev1m_lane nl s g i : i < nl -> forall j, rev1m O nl s g j i = rev1 O s (lane g i) j.
Proof.
  intros Hi j. rewrite (rev1_shortcut O Rth eqb_true). unfold rev1_plain.
  unfold rev1m.
  set (a := map (fun i0 => g (lhs s) i0) (seq 0 nl)).
  assert (nth i a Z0' = g (lhs s) i) as Ha by (unfold a; apply nth_map_seq; exact Hi).
  set (g0 := (fun j0 i0 => if (j0 =? lhs s) && (i0 <? nl) then Z0' else g j0 i0) : mvec (T:=T)).
  assert (forall k, lane g0 i k = upd (lane g i) (lhs s) Z0' k) as Hg0.
  { intros k. unfold lane, g0, upd. apply Nat.ltb_lt in Hi. rewrite Hi, andb_true_r. reflexivity. }
  destruct (existsb (fun x => negb (oeqb O x Z0')) a) eqn:EA.
  - (* some lane non-zero: every lane scatters *)
    assert (forall o (g' : mvec (T:=T)) k,
      fold_left (fun (g'' : mvec (T:=T)) mi =>
                 let vals := map (fun i0 => oadd O (g'' (snd mi) i0) (omul O (fst mi) (nth i0 a Z0'))) (seq 0 nl) in
                 fun j0 i0 => if (j0 =? snd mi) && (i0 <? nl) then nth i0 vals Z0' else g'' j0 i0) o g' k i
      = scatter O (g (lhs s) i) o (lane g' i) k) as HF.
    { induction o as [|mi o IH]; intros g' k; [reflexivity|]. cbn [fold_left]. rewrite IH.
      change (scatter O (g (lhs s) i) (mi :: o) (lane g' i))
        with (scatter O (g (lhs s) i) o (upd (lane g' i) (snd mi) (oadd O (lane g' i (snd mi)) (omul O (fst mi) (g (lhs s) i))))).
      apply (scatter_ext O). intros k'. unfold lane, upd. destruct (Nat.eqb_spec k' (snd mi)); simpl.
      - apply Nat.ltb_lt in Hi. rewrite Hi. apply Nat.ltb_lt in Hi. rewrite nth_map_seq by exact Hi. rewrite Ha. subst k'. reflexivity.
      - reflexivity. }
    rewrite HF. apply (scatter_ext O). exact Hg0.
  - (* all lanes zero: nothing is scattered, and scattering zero is the identity *)
    assert (g (lhs s) i = Z0') as Hz.
    { pose proof (existsb_false_all _ _ EA (g (lhs s) i)) as H.
      assert (In (g (lhs s) i) a) as Hin by (unfold a; apply in_map_iff; exists i; split; [reflexivity|apply in_seq; lia]).
      specialize (H Hin). apply negb_false_iff in H. apply eqb_true in H. exact H. }
    unfold lane at 1. rewrite Hz. rewrite (scatter_zero O Rth). exact (Hg0 j).
Qed.

Lemma revm_lane_gen nl : forall (tt : tape) g i, i < nl -> forall j,
  fold_right (fun s g => rev1m O nl s g) g tt j i = rev_sweep O tt (lane g i) j.
Proof. induction tt as [|s tt IH]; intros g i Hi j; simpl; [reflexivity|].
  rewrite rev1m_lane by exact Hi. apply (rev1_ext O Rth eqb_true). intros k. unfold lane at 1. apply IH. exact Hi. Qed.
Lemma revm_lane nl g i : i < nl -> forall j, revm O t nl g j i = rev_sweep O t (lane g i) j.
Proof. intros. apply revm_lane_gen; assumption. Qed.

(* ---------- seeds ---------- *)
Lemma seed_lane idx i0 bs i : i < bs -> forall j, lane (seed O idx i0 bs) i j = unit_vec O (nth (i0 + i) idx 0%nat) j.
Proof. intros Hi j. unfold lane, seed, unit_vec. apply Nat.ltb_lt in Hi. rewrite Hi. simpl. rewrite Nat.eqb_sym. reflexivity. Qed.

(* ---------- canonical write lists ---------- *)
Definition addr (doff ioff : Z) (i j : nat) : Z := (Z.of_nat i * doff + Z.of_nat j * ioff)%Z.
Definition canon_wr (J : nat -> nat -> T) (doff ioff : Z) (ij : nat * nat) : wr (T:=T) :=
  mkWr (fst ij) (snd ij) (addr doff ioff (fst ij) (snd ij)) (J (fst ij) (snd ij)).
Definition cells : list (nat * nat) := list_prod (seq 0 m) (seq 0 n).
Definition canon (J : nat -> nat -> T) (doff ioff : Z) : list (wr (T:=T)) := map (canon_wr J doff ioff) cells.

Lemma cells_NoDup : NoDup cells.
Proof using indeps deps. clear Mpos. unfold cells. assert (forall (l1 l2 : list nat), NoDup l1 -> NoDup l2 -> NoDup (list_prod l1 l2)) as H.
  { induction l1 as [|x l1 IH]; intros l2 H1 H2; simpl; [constructor|]. inversion H1; subst.
    apply NoDup_app_intro; [| |].
    - apply FinFun.Injective_map_NoDup; [intros a b E; congruence|assumption].
    - apply IH; assumption.
    - intros [a b] Ha Hb. apply in_map_iff in Ha. destruct Ha as (c & E & _). inversion E; subst.
      apply in_prod_iff in Hb. tauto. }
  apply H; apply seq_NoDup.
Qed.
Lemma cells_In i j : In (i, j) cells <-> i < m /\ j < n.
Proof using indeps deps. clear Mpos. unfold cells. rewrite in_prod_iff, !in_seq. lia. Qed.
Lemma cells_length : length cells = m * n.
Proof using indeps deps. clear Mpos. unfold cells. rewrite prod_length, !seq_length. reflexivity. Qed.
Lemma canon_NoDup J doff ioff : NoDup (canon J doff ioff).
Proof using indeps deps. clear Mpos. unfold canon. apply FinFun.Injective_map_NoDup; [|apply cells_NoDup].
  intros [a b] [c d] E. unfold canon_wr in E. simpl in E. inversion E; subst; reflexivity. Qed.

(* the three facts that characterise a routine's write list *)
Definition sound (J : nat -> nat -> T) doff ioff (L : list (wr (T:=T))) : Prop :=
  forall w, In w L -> w_dep w < m /\ w_indep w < n /\ w = canon_wr J doff ioff (w_dep w, w_indep w).
Definition covers (J : nat -> nat -> T) doff ioff (L : list (wr (T:=T))) : Prop :=
  forall i j, i < m -> j < n -> In (canon_wr J doff ioff (i, j)) L.

Lemma routine_perm J doff ioff L : sound J doff ioff L -> covers J doff ioff L -> length L = m * n ->
  Permutation L (canon J doff ioff).
Proof using indeps deps. clear Mpos.
  intros Hs Hc Hl.
  assert (incl (canon J doff ioff) L) as Hincl.
  { intros w Hw. unfold canon in Hw. apply in_map_iff in Hw. destruct Hw as ([i j] & <- & Hij).
    apply cells_In in Hij. apply Hc; tauto. }
  assert (NoDup L) as HND.
  { apply (@NoDup_incl_NoDup _ (canon J doff ioff)); [apply canon_NoDup| |exact Hincl].
    unfold canon. rewrite map_length, cells_length. lia. }
  apply NoDup_Permutation; [exact HND|apply canon_NoDup|].
  intros w. split; [|apply Hincl].
  intros Hw. destruct (Hs w Hw) as (H1 & H2 & E). rewrite E. unfold canon. apply in_map. apply cells_In. tauto.
Qed.

(* ---------- one block's writes ---------- *)
Lemma fwd_block_spec (g : mvec (T:=T)) i0 bs doff ioff w :
  In w (fwd_block_writes deps g i0 bs doff ioff) <->
  exists idep i, idep < m /\ i < bs /\ w = mkWr idep (i0 + i) (addr doff ioff idep (i0 + i)) (g (nth idep deps 0%nat) i).
Proof.
  unfold fwd_block_writes. rewrite in_flat_map. split.
  - intros (idep & Hd & Hw). apply in_map_iff in Hw. destruct Hw as (i & <- & Hi). apply in_seq in Hd. apply in_seq in Hi.
    exists idep, i. split; [lia|]. split; [lia|]. f_equal. unfold addr. rewrite Nat2Z.inj_add.
    destruct (Z.eqb_spec ioff 1) as [->|]; ring.
  - intros (idep & i & Hd & Hi & ->). exists idep. split; [apply in_seq; lia|]. apply in_map_iff. exists i.
    split; [|apply in_seq; lia]. f_equal. unfold addr. rewrite Nat2Z.inj_add.
    destruct (Z.eqb_spec ioff 1) as [->|]; ring.
Qed.
Lemma fwd_block_length (g : mvec (T:=T)) i0 bs doff ioff : length (fwd_block_writes deps g i0 bs doff ioff) = m * bs.
Proof. unfold fwd_block_writes. rewrite (length_flat_map_const _ _ bs); [rewrite seq_length; reflexivity|].
  intros; rewrite map_length, seq_length; reflexivity. Qed.
Lemma rev_block_spec (g : mvec (T:=T)) i0 bs doff ioff w :
  In w (rev_block_writes indeps g i0 bs doff ioff) <->
  exists iind i, iind < n /\ i < bs /\ w = mkWr (i0 + i) iind (addr doff ioff (i0 + i) iind) (g (nth iind indeps 0%nat) i).
Proof.
  unfold rev_block_writes. rewrite in_flat_map. split.
  - intros (iind & Hd & Hw). apply in_map_iff in Hw. destruct Hw as (i & <- & Hi). apply in_seq in Hd. apply in_seq in Hi.
    exists iind, i. split; [lia|]. split; [lia|]. f_equal. unfold addr. rewrite Nat2Z.inj_add.
    destruct (Z.eqb_spec doff 1) as [->|]; ring.
  - intros (iind & i & Hd & Hi & ->). exists iind. split; [apply in_seq; lia|]. apply in_map_iff. exists i.
    split; [|apply in_seq; lia]. f_equal. unfold addr. rewrite Nat2Z.inj_add.
    destruct (Z.eqb_spec doff 1) as [->|]; ring.
Qed.
Lemma rev_block_length (g : mvec (T:=T)) i0 bs doff ioff : length (rev_block_writes indeps g i0 bs doff ioff) = n * bs.
Proof. unfold rev_block_writes. rewrite (length_flat_map_const _ _ bs); [rewrite seq_length; reflexivity|].
  intros; rewrite map_length, seq_length; reflexivity. Qed.

(* values produced by a seeded block *)
Notation Jf := (J_fwd O t indeps deps). Notation Jr := (J_rev O t indeps deps).
Lemma fwd_block_value nl i0 bs idep i : i < bs -> bs <= nl ->
  fwdm O t nl (seed O indeps i0 bs) (nth idep deps 0%nat) i = Jf idep (i0 + i).
Proof. intros Hi Hb. rewrite fwdm_lane by lia. unfold J_fwd. apply (fwd_ext O). apply seed_lane. exact Hi. Qed.
Lemma rev_block_value nl i0 bs iind i : i < bs -> bs <= nl ->
  revm O t nl (seed O deps i0 bs) (nth iind indeps 0%nat) i = Jr (i0 + i) iind.
Proof. intros Hi Hb. rewrite revm_lane by lia. unfold J_rev. apply (rev_ext O Rth eqb_true). apply seed_lane. exact Hi. Qed.

(* ---------- arithmetic of the block decomposition ---------- *)
Lemma block_index k b i : b < k / M -> i < M -> M * b + i < k.
Proof. intros Hb Hi. pose proof (Nat.div_mod k M ltac:(lia)). pose proof (Nat.mod_upper_bound k M ltac:(lia)). nia. Qed.
Lemma extra_index k i : i < k mod M -> M * (k / M) + i < k.
Proof. intros Hi. pose proof (Nat.div_mod k M ltac:(lia)). lia. Qed.
Lemma split_index k j : j < k -> (j / M < k / M /\ j mod M < M) \/ (j / M = k / M /\ j mod M < k mod M).
Proof. intros Hj. pose proof (Nat.div_mod k M ltac:(lia)). pose proof (Nat.div_mod j M ltac:(lia)).
  pose proof (Nat.mod_upper_bound k M ltac:(lia)). pose proof (Nat.mod_upper_bound j M ltac:(lia)).
  assert (j / M <= k / M) by (apply Nat.div_le_mono; lia).
  destruct (Nat.eq_dec (j / M) (k / M)) as [E|E]; [right|left; lia]. split; [exact E|]. rewrite E in *. lia. Qed.

(* ---------- serial forward ---------- *)
Section Offsets.
Variables dep_off0 indep_off0 : Z.
Notation doff := (eff_dep_off indeps dep_off0). Notation ioff := (eff_indep_off deps indep_off0).

Lemma fwd_serial_sound : sound Jf doff ioff (jac_fwd_serial O M t indeps deps dep_off0 indep_off0).
Proof.
  intros w Hw. unfold jac_fwd_serial in Hw. apply in_app_or in Hw. destruct Hw as [Hw|Hw].
  - apply in_flat_map in Hw. destruct Hw as (b & Hb & Hw). apply in_seq in Hb.
    apply fwd_block_spec in Hw. destruct Hw as (idep & i & Hd & Hi & ->). simpl.
    pose proof (block_index n b i ltac:(lia) Hi). repeat split; try lia.
    unfold canon_wr; simpl. f_equal. apply fwd_block_value; lia.
  - destruct (Nat.ltb_spec 0 (n mod M)); [|contradiction].
    apply fwd_block_spec in Hw. destruct Hw as (idep & i & Hd & Hi & ->). simpl.
    pose proof (extra_index n i Hi). repeat split; try lia.
    unfold canon_wr; simpl. f_equal. apply fwd_block_value; lia.
Qed.
Lemma fwd_serial_covers : covers Jf doff ioff (jac_fwd_serial O M t indeps deps dep_off0 indep_off0).
Proof.
  intros i j Hi Hj. unfold jac_fwd_serial. apply in_or_app.
  pose proof (Nat.div_mod j M ltac:(lia)) as Ej.
  destruct (split_index n j Hj) as [[H1 H2]|[H1 H2]].
  - left. apply in_flat_map. exists (j / M). split; [apply in_seq; lia|]. apply fwd_block_spec.
    exists i, (j mod M). split; [exact Hi|]. split; [exact H2|]. unfold canon_wr; simpl.
    rewrite fwd_block_value by lia. rewrite <- Ej. reflexivity.
  - right. assert (0 < n mod M) as Hpos by lia. apply Nat.ltb_lt in Hpos. rewrite Hpos. apply fwd_block_spec.
    exists i, (j mod M). split; [exact Hi|]. split; [exact H2|]. unfold canon_wr; simpl.
    rewrite fwd_block_value by lia. rewrite <- H1, <- Ej. reflexivity.
Qed.
Lemma fwd_serial_length : length (jac_fwd_serial O M t indeps deps dep_off0 indep_off0) = m * n.
Proof.
  unfold jac_fwd_serial. rewrite app_length. rewrite (length_flat_map_const _ _ (m * M)) by (intros; apply fwd_block_length).
  rewrite seq_length. pose proof (Nat.div_mod n M ltac:(lia)) as E.
  destruct (Nat.ltb_spec 0 (n mod M)); [rewrite fwd_block_length|simpl]; nia.
Qed.
Theorem fwd_serial_perm : Permutation (jac_fwd_serial O M t indeps deps dep_off0 indep_off0) (canon Jf doff ioff).
Proof. apply routine_perm; [apply fwd_serial_sound|apply fwd_serial_covers|apply fwd_serial_length]. Qed.

(* ---------- serial reverse ---------- *)
Lemma rev_serial_sound : sound Jr doff ioff (jac_rev_serial O M t indeps deps dep_off0 indep_off0).
Proof.
  intros w Hw. unfold jac_rev_serial in Hw. apply in_app_or in Hw. destruct Hw as [Hw|Hw].
  - apply in_flat_map in Hw. destruct Hw as (b & Hb & Hw). apply in_seq in Hb.
    apply rev_block_spec in Hw. destruct Hw as (iind & i & Hd & Hi & ->). simpl.
    pose proof (block_index m b i ltac:(lia) Hi). repeat split; try lia.
    unfold canon_wr; simpl. f_equal. apply rev_block_value; lia.
  - destruct (Nat.ltb_spec 0 (m mod M)); [|contradiction].
    apply rev_block_spec in Hw. destruct Hw as (iind & i & Hd & Hi & ->). simpl.
    pose proof (extra_index m i Hi). repeat split; try lia.
    unfold canon_wr; simpl. f_equal. apply rev_block_value; lia.
Qed.
Lemma rev_serial_covers : covers Jr doff ioff (jac_rev_serial O M t indeps deps dep_off0 indep_off0).
Proof.
  intros i j Hi Hj. unfold jac_rev_serial. apply in_or_app.
  pose proof (Nat.div_mod i M ltac:(lia)) as Ei.
  destruct (split_index m i Hi) as [[H1 H2]|[H1 H2]].
  - left. apply in_flat_map. exists (i / M). split; [apply in_seq; lia|]. apply rev_block_spec.
    exists j, (i mod M). split; [exact Hj|]. split; [exact H2|]. unfold canon_wr; simpl.
    rewrite rev_block_value by lia. rewrite <- Ei. reflexivity.
  - right. assert (0 < m mod M) as Hpos by lia. apply Nat.ltb_lt in Hpos. rewrite Hpos. apply rev_block_spec.
    exists j, (i mod M). split; [exact Hj|]. split; [exact H2|]. unfold canon_wr; simpl.
    rewrite rev_block_value by lia. rewrite <- H1, <- Ei. reflexivity.
Qed.
Lemma rev_serial_length : length (jac_rev_serial O M t indeps deps dep_off0 indep_off0) = m * n.
Proof.
  unfold jac_rev_serial. rewrite app_length. rewrite (length_flat_map_const _ _ (n * M)) by (intros; apply rev_block_length).
  rewrite seq_length. pose proof (Nat.div_mod m M ltac:(lia)) as E.
  destruct (Nat.ltb_spec 0 (m mod M)); [rewrite rev_block_length|simpl]; nia.
Qed.
Theorem rev_serial_perm : Permutation (jac_rev_serial O M t indeps deps dep_off0 indep_off0) (canon Jr doff ioff).
Proof. apply routine_perm; [apply rev_serial_sound|apply rev_serial_covers|apply rev_serial_length]. Qed.

(* ---------- OpenMP routines: any visiting order of the ceil(k/M) blocks ---------- *)
Lemma omp_blocks_eq k : omp_blocks M k = k / M + (if 0 <? k mod M then 1 else 0).
Proof. unfold omp_blocks. pose proof (Nat.div_mod k M ltac:(lia)) as E. pose proof (Nat.mod_upper_bound k M ltac:(lia)).
  destruct (Nat.ltb_spec 0 (k mod M)).
  - symmetry. apply (Nat.div_unique _ _ _ (k mod M - 1)); nia.
  - symmetry. apply (Nat.div_unique _ _ _ (M - 1)); nia. Qed.
Lemma omp_block_size_full k b : b < k / M -> omp_block_size M k b = M.
Proof. intros Hb. unfold omp_block_size. rewrite omp_blocks_eq. destruct (Nat.ltb_spec 0 (k mod M)); simpl.
  - destruct (Nat.eqb_spec b (k / M + 1 - 1)); [lia|reflexivity]. - rewrite andb_false_r. reflexivity. Qed.
Lemma omp_block_size_last k : 0 < k mod M -> omp_block_size M k (k / M) = k mod M.
Proof. intros H. unfold omp_block_size. rewrite omp_blocks_eq. apply Nat.ltb_lt in H. rewrite H.
  replace (k / M + 1 - 1) with (k / M) by lia. rewrite Nat.eqb_refl. reflexivity. Qed.

Lemma fwd_omp_seq_sound : sound Jf doff ioff (jac_fwd_omp O M t indeps deps (seq 0 (omp_blocks M n)) dep_off0 indep_off0).
Proof.
  intros w Hw. unfold jac_fwd_omp in Hw. apply in_flat_map in Hw. destruct Hw as (b & Hb & Hw). apply in_seq in Hb.
  rewrite omp_blocks_eq in Hb. apply fwd_block_spec in Hw. destruct Hw as (idep & i & Hd & Hi & ->). simpl.
  pose proof (Nat.mod_upper_bound n M ltac:(lia)).
  destruct (Nat.lt_ge_cases b (n / M)) as [Hlt|Hge].
  - rewrite omp_block_size_full in * by exact Hlt. pose proof (block_index n b i Hlt Hi). repeat split; try lia.
    unfold canon_wr; simpl. f_equal. apply fwd_block_value; lia.
  - destruct (Nat.ltb_spec 0 (n mod M)); [|lia]. assert (b = n / M) as -> by lia.
    rewrite omp_block_size_last in * by assumption. pose proof (extra_index n i Hi). repeat split; try lia.
    unfold canon_wr; simpl. f_equal. apply fwd_block_value; lia.
Qed.
Lemma fwd_omp_seq_covers : covers Jf doff ioff (jac_fwd_omp O M t indeps deps (seq 0 (omp_blocks M n)) dep_off0 indep_off0).
Proof.
  intros i j Hi Hj. unfold jac_fwd_omp. apply in_flat_map. exists (j / M).
  pose proof (Nat.div_mod j M ltac:(lia)) as Ej. pose proof (Nat.mod_upper_bound n M ltac:(lia)).
  destruct (split_index n j Hj) as [[H1 H2]|[H1 H2]].
  - split; [apply in_seq; rewrite omp_blocks_eq; lia|]. rewrite omp_block_size_full by exact H1. apply fwd_block_spec.
    exists i, (j mod M). split; [exact Hi|]. split; [exact H2|]. unfold canon_wr; simpl.
    rewrite fwd_block_value by lia. rewrite <- Ej. reflexivity.
  - assert (0 < n mod M) as Hpos by lia. split; [apply in_seq; rewrite omp_blocks_eq; apply Nat.ltb_lt in Hpos; rewrite Hpos; lia|].
    rewrite H1, omp_block_size_last by exact Hpos. apply fwd_block_spec.
    exists i, (j mod M). split; [exact Hi|]. split; [exact H2|]. unfold canon_wr; simpl.
    rewrite fwd_block_value by lia. rewrite <- H1, <- Ej. reflexivity.
Qed.
Lemma fwd_omp_seq_length : length (jac_fwd_omp O M t indeps deps (seq 0 (omp_blocks M n)) dep_off0 indep_off0) = m * n.
Proof.
  unfold jac_fwd_omp. rewrite omp_blocks_eq. pose proof (Nat.div_mod n M ltac:(lia)) as E.
  destruct (Nat.ltb_spec 0 (n mod M)) as [Hpos|Hz].
  - rewrite seq_app, flat_map_app, app_length. simpl. rewrite app_nil_r, fwd_block_length, omp_block_size_last by exact Hpos.
    rewrite (length_flat_map_const _ _ (m * M)).
    + rewrite seq_length. nia.
    + intros b Hb. apply in_seq in Hb. rewrite fwd_block_length, omp_block_size_full by lia. reflexivity.
  - rewrite Nat.add_0_r. rewrite (length_flat_map_const _ _ (m * M)).
    + rewrite seq_length. nia.
    + intros b Hb. apply in_seq in Hb. rewrite fwd_block_length, omp_block_size_full by lia. reflexivity.
Qed.
Theorem fwd_omp_perm order : Permutation order (seq 0 (omp_blocks M n)) ->
  Permutation (jac_fwd_omp O M t indeps deps order dep_off0 indep_off0) (canon Jf doff ioff).
Proof.
  intros Hp. transitivity (jac_fwd_omp O M t indeps deps (seq 0 (omp_blocks M n)) dep_off0 indep_off0).
  - unfold jac_fwd_omp. apply Permutation_flat_map. exact Hp.
  - apply routine_perm; [apply fwd_omp_seq_sound|apply fwd_omp_seq_covers|apply fwd_omp_seq_length].
Qed.

Lemma rev_omp_seq_sound : sound Jr doff ioff (jac_rev_omp O M t indeps deps (seq 0 (omp_blocks M m)) dep_off0 indep_off0).
Proof.
  intros w Hw. unfold jac_rev_omp in Hw. apply in_flat_map in Hw. destruct Hw as (b & Hb & Hw). apply in_seq in Hb.
  rewrite omp_blocks_eq in Hb. apply rev_block_spec in Hw. destruct Hw as (iind & i & Hd & Hi & ->). simpl.
  pose proof (Nat.mod_upper_bound m M ltac:(lia)).
  destruct (Nat.lt_ge_cases b (m / M)) as [Hlt|Hge].
  - rewrite omp_block_size_full in * by exact Hlt. pose proof (block_index m b i Hlt Hi). repeat split; try lia.
    unfold canon_wr; simpl. f_equal. apply rev_block_value; lia.
  - destruct (Nat.ltb_spec 0 (m mod M)); [|lia]. assert (b = m / M) as -> by lia.
    rewrite omp_block_size_last in * by assumption. pose proof (extra_index m i Hi). repeat split; try lia.
    unfold canon_wr; simpl. f_equal. apply rev_block_value; lia.
Qed.
Lemma rev_omp_seq_covers : covers Jr doff ioff (jac_rev_omp O M t indeps deps (seq 0 (omp_blocks M m)) dep_off0 indep_off0).
Proof.
  intros i j Hi Hj. unfold jac_rev_omp. apply in_flat_map. exists (i / M).
  pose proof (Nat.div_mod i M ltac:(lia)) as Ei. pose proof (Nat.mod_upper_bound m M ltac:(lia)).
  destruct (split_index m i Hi) as [[H1 H2]|[H1 H2]].
  - split; [apply in_seq; rewrite omp_blocks_eq; lia|]. rewrite omp_block_size_full by exact H1. apply rev_block_spec.
    exists j, (i mod M). split; [exact Hj|]. split; [exact H2|]. unfold canon_wr; simpl.
    rewrite rev_block_value by lia. rewrite <- Ei. reflexivity.
  - assert (0 < m mod M) as Hpos by lia. split; [apply in_seq; rewrite omp_blocks_eq; apply Nat.ltb_lt in Hpos; rewrite Hpos; lia|].
    rewrite H1, omp_block_size_last by exact Hpos. apply rev_block_spec.
    exists j, (i mod M). split; [exact Hj|]. split; [exact H2|]. unfold canon_wr; simpl.
    rewrite rev_block_value by lia. rewrite <- H1, <- Ei. reflexivity.
Qed.
Lemma rev_omp_seq_length : length (jac_rev_omp O M t indeps deps (seq 0 (omp_blocks M m)) dep_off0 indep_off0) = m * n.
Proof.
  unfold jac_rev_omp. rewrite omp_blocks_eq. pose proof (Nat.div_mod m M ltac:(lia)) as E.
  destruct (Nat.ltb_spec 0 (m mod M)) as [Hpos|Hz].
  - rewrite seq_app, flat_map_app, app_length. simpl. rewrite app_nil_r, rev_block_length, omp_block_size_last by exact Hpos.
    rewrite (length_flat_map_const _ _ (n * M)).
    + rewrite seq_length. nia.
    + intros b Hb. apply in_seq in Hb. rewrite rev_block_length, omp_block_size_full by lia. reflexivity.
  - rewrite Nat.add_0_r. rewrite (length_flat_map_const _ _ (n * M)).
    + rewrite seq_length. nia.
    + intros b Hb. apply in_seq in Hb. rewrite rev_block_length, omp_block_size_full by lia. reflexivity.
Qed.
Theorem rev_omp_perm order : Permutation order (seq 0 (omp_blocks M m)) ->
  Permutation (jac_rev_omp O M t indeps deps order dep_off0 indep_off0) (canon Jr doff ioff).
Proof.
  intros Hp. transitivity (jac_rev_omp O M t indeps deps (seq 0 (omp_blocks M m)) dep_off0 indep_off0).
  - unfold jac_rev_omp. apply Permutation_flat_map. exact Hp.
  - apply routine_perm; [apply rev_omp_seq_sound|apply rev_omp_seq_covers|apply rev_omp_seq_length].
Qed.
End Offsets.

(* ---------- forward entries = reverse entries (needs a well-formed tape) ---------- *)
Variable ngrad : nat.
Hypothesis t_wf : Forall (wf_stmt ngrad) t.
Hypothesis indeps_wf : Forall (fun k => k < ngrad) indeps.
Hypothesis deps_wf : Forall (fun k => k < ngrad) deps.

Lemma nth_wf l k : Forall (fun x => x < ngrad) l -> k < length l -> nth k l 0%nat < ngrad.
Proof. intros H Hk. rewrite Forall_forall in H. apply H. apply nth_In. exact Hk. Qed.
Theorem J_rev_eq_J_fwd i j : i < m -> j < n -> Jr i j = Jf i j.
Proof. intros Hi Hj. unfold J_rev, J_fwd. apply (reverse_entry_eq_forward_entry O Rth eqb_true ngrad); auto using nth_wf. Qed.
Lemma canon_rev_eq_fwd doff ioff : canon Jr doff ioff = canon Jf doff ioff.
Proof. unfold canon. apply map_ext_in. intros [i j] Hij. apply cells_In in Hij. unfold canon_wr; simpl.
  rewrite J_rev_eq_J_fwd by tauto. reflexivity. Qed.

Theorem all_routines_agree d0 i0 ordf ordr :
  Permutation ordf (seq 0 (omp_blocks M n)) -> Permutation ordr (seq 0 (omp_blocks M m)) ->
  let C := canon Jf (eff_dep_off indeps d0) (eff_indep_off deps i0) in
  Permutation (jac_fwd_serial O M t indeps deps d0 i0) C /\
  Permutation (jac_rev_serial O M t indeps deps d0 i0) C /\
  Permutation (jac_auto O M t indeps deps d0 i0) C /\
  Permutation (jac_fwd_omp O M t indeps deps ordf d0 i0) C /\
  Permutation (jac_rev_omp O M t indeps deps ordr d0 i0) C.
Proof.
  intros Hf Hr C. unfold C. repeat split.
  - apply fwd_serial_perm.
  - rewrite <- canon_rev_eq_fwd. apply rev_serial_perm.
  - unfold jac_auto. destruct (n <=? m); [apply fwd_serial_perm|rewrite <- canon_rev_eq_fwd; apply rev_serial_perm].
  - apply fwd_omp_perm. exact Hf.
  - rewrite <- canon_rev_eq_fwd. apply rev_omp_perm. exact Hr.
Qed.

(* ---------- effect on memory ---------- *)
Lemma apply_writes_notin (L : list (wr (T:=T))) : forall mem a, ~ In a (map w_addr L) -> apply_writes L mem a = mem a.
Proof using Type. clear Mpos. induction L as [|w L IH]; intros mem a H; [reflexivity|]. cbn [apply_writes fold_left].
  change (fold_left _ L ?mm a) with (apply_writes L mm a). rewrite IH by (intro; apply H; right; assumption).
  destruct (Z.eqb_spec a (w_addr w)) as [->|]; [exfalso; apply H; left; reflexivity|reflexivity]. Qed.
Lemma apply_writes_in (L : list (wr (T:=T))) : forall mem w, NoDup (map w_addr L) -> In w L ->
  apply_writes L mem (w_addr w) = w_val w.
Proof using Type. clear Mpos. induction L as [|w0 L IH]; intros mem w HND Hin; [contradiction|]. cbn [apply_writes fold_left].
  change (fold_left _ L ?mm ?a) with (apply_writes L mm a). simpl in HND. inversion HND as [|? ? Hnot HND']; subst.
  destruct Hin as [->|Hin].
  - rewrite apply_writes_notin by exact Hnot. rewrite Z.eqb_refl. reflexivity.
  - apply IH; assumption. Qed.
Theorem apply_writes_perm (L L' : list (wr (T:=T))) mem : Permutation L L' -> NoDup (map w_addr L) ->
  forall a, apply_writes L mem a = apply_writes L' mem a.
Proof using Type. clear Mpos.
  intros Hp HND a. assert (NoDup (map w_addr L')) as HND' by (eapply Permutation_NoDup; [apply Permutation_map; exact Hp|exact HND]).
  destruct (in_dec Z.eq_dec a (map w_addr L)) as [Hin|Hnot].
  - apply in_map_iff in Hin. destruct Hin as (w & <- & Hw). rewrite apply_writes_in by assumption.
    rewrite apply_writes_in; [reflexivity|exact HND'|]. eapply Permutation_in; eassumption.
  - rewrite apply_writes_notin by exact Hnot. rewrite apply_writes_notin; [reflexivity|].
    intro H. apply Hnot. eapply Permutation_in; [apply Permutation_map; symmetry; exact Hp|exact H].
Qed.

(* final memory of any routine: each cell of the target holds its entry, everything else untouched *)
Definition addr_injective (doff ioff : Z) : Prop :=
  forall i j i' j', i < m -> j < n -> i' < m -> j' < n -> addr doff ioff i j = addr doff ioff i' j' -> i = i' /\ j = j'.
Lemma canon_addr_NoDup J doff ioff : addr_injective doff ioff -> NoDup (map w_addr (canon J doff ioff)).
Proof using indeps deps. clear Mpos. intros Hinj. unfold canon. rewrite map_map. simpl.
  assert (forall l : list (nat*nat), NoDup l -> (forall ij, In ij l -> fst ij < m /\ snd ij < n) ->
          NoDup (map (fun ij => addr doff ioff (fst ij) (snd ij)) l)) as H.
  { induction l as [|[i j] l IH]; intros HND Hb; simpl; [constructor|]. inversion HND; subst. constructor.
    - intros Hin. apply in_map_iff in Hin. destruct Hin as ([i' j'] & E & Hin'). simpl in E.
      destruct (Hb (i,j) (or_introl eq_refl)) as [? ?]. destruct (Hb (i',j') (or_intror Hin')) as [? ?]. simpl in *.
      destruct (Hinj i' j' i j) as [-> ->]; auto.
    - apply IH; [assumption|]. intros ij Hij. apply Hb. right. exact Hij. }
  apply H; [apply cells_NoDup|]. intros [i j] Hij. apply cells_In in Hij. exact Hij. Qed.
Theorem final_memory J doff ioff L mem : Permutation L (canon J doff ioff) -> addr_injective doff ioff ->
  (forall i j, i < m -> j < n -> apply_writes L mem (addr doff ioff i j) = J i j) /\
  (forall a, (forall i j, i < m -> j < n -> a <> addr doff ioff i j) -> apply_writes L mem a = mem a).
Proof using indeps deps. clear Mpos.
  intros Hp Hinj. pose proof (canon_addr_NoDup J doff ioff Hinj) as HND.
  assert (NoDup (map w_addr L)) as HNDL by (eapply Permutation_NoDup; [apply Permutation_map; symmetry; exact Hp|exact HND]).
  split.
  - intros i j Hi Hj. rewrite (apply_writes_perm L _ mem Hp HNDL).
    change (addr doff ioff i j) with (w_addr (canon_wr J doff ioff (i,j))).
    rewrite apply_writes_in; [reflexivity|exact HND|]. unfold canon. apply in_map. apply cells_In. tauto.
  - intros a Ha. rewrite (apply_writes_perm L _ mem Hp HNDL). apply apply_writes_notin.
    intros Hin. unfold canon in Hin. rewrite map_map in Hin. apply in_map_iff in Hin. destruct Hin as ([i j] & E & Hij).
    apply cells_In in Hij. simpl in E. apply (Ha i j); [tauto|tauto|]. symmetry. exact E.
Qed.

(* layouts: column-major default of the raw-pointer form, row-major Matrix, any strided target *)
End JacP.

Section Layout.
Variables indeps deps : list nat.
Lemma addr_inj_strided_rows doff ioff : (1 <= ioff)%Z -> (Z.of_nat (length indeps) * ioff <= doff)%Z -> addr_injective indeps deps doff ioff.
Proof. intros H1 H2 i j i' j' Hi Hj Hi' Hj' E. unfold addr in E.
  assert (i = i') as ->.
  { destruct (Nat.lt_trichotomy i i') as [Hlt|[->|Hlt]]; [exfalso|reflexivity|exfalso]; nia. }
  split; [reflexivity|]. nia. Qed.
Lemma addr_inj_strided_cols doff ioff : (1 <= doff)%Z -> (Z.of_nat (length deps) * doff <= ioff)%Z -> addr_injective indeps deps doff ioff.
Proof. intros H1 H2 i j i' j' Hi Hj Hi' Hj' E. unfold addr in E.
  assert (j = j') as ->.
  { destruct (Nat.lt_trichotomy j j') as [Hlt|[->|Hlt]]; [exfalso|reflexivity|exfalso]; nia. }
  split; [|reflexivity]. nia. Qed.
Lemma addr_inj_colmajor : addr_injective indeps deps 1 (Z.of_nat (length deps)).
Proof. apply addr_inj_strided_cols; lia. Qed.
Lemma addr_inj_rowmajor : addr_injective indeps deps (Z.of_nat (length indeps)) 1.
Proof. apply addr_inj_strided_rows; lia. Qed.
End Layout.

Lemma layout_strided (indeps deps : list nat) doff ioff : (1 <= doff)%Z -> (1 <= ioff)%Z ->
  (Z.of_nat (length indeps) * ioff <= doff)%Z \/ (Z.of_nat (length deps) * doff <= ioff)%Z ->
  eff_dep_off indeps doff = doff /\ eff_indep_off deps ioff = ioff /\ addr_injective indeps deps doff ioff.
Proof.
  intros H1 H2 H. unfold eff_dep_off, eff_indep_off.
  destruct (Z.leb_spec doff 0); [lia|]. destruct (Z.leb_spec ioff 0); [lia|].
  split; [reflexivity|]. split; [reflexivity|].
  destruct H; [apply addr_inj_strided_rows|apply addr_inj_strided_cols]; assumption.
Qed.


(* ---------- consequences used by C13 ---------- *)
Section Omp.
Context {T : Type} (O : Ops T).
Hypothesis Rth : ring_theory (o0 O) (o1 O) (oadd O) (omul O) (osub O) (oneg O) (@eq T).
Hypothesis eqb_true : forall a b, oeqb O a b = true -> a = b.

Lemma omp_same_writes M : 1 <= M -> forall (t : tape) indeps deps d0 i0 ordf ordr,
  Permutation ordf (seq 0 (omp_blocks M (length indeps))) -> Permutation ordr (seq 0 (omp_blocks M (length deps))) ->
  Permutation (jac_fwd_omp O M t indeps deps ordf d0 i0) (jac_fwd_serial O M t indeps deps d0 i0) /\
  Permutation (jac_rev_omp O M t indeps deps ordr d0 i0) (jac_rev_serial O M t indeps deps d0 i0).
Proof.
  intros HM t indeps deps d0 i0 ordf ordr Hf Hr. split.
  - transitivity (canon indeps deps (J_fwd O t indeps deps) (eff_dep_off indeps d0) (eff_indep_off deps i0)).
    + apply (fwd_omp_perm O M HM); assumption.
    + symmetry. apply (fwd_serial_perm O M HM).
  - transitivity (canon indeps deps (J_rev O t indeps deps) (eff_dep_off indeps d0) (eff_indep_off deps i0)).
    + apply (rev_omp_perm O Rth eqb_true M HM); assumption.
    + symmetry. apply (rev_serial_perm O Rth eqb_true M HM).
Qed.

Lemma omp_schedule_independent M : 1 <= M -> forall (t : tape) indeps deps d0 i0 ordf ordr mem,
  Permutation ordf (seq 0 (omp_blocks M (length indeps))) -> Permutation ordr (seq 0 (omp_blocks M (length deps))) ->
  addr_injective indeps deps (eff_dep_off indeps d0) (eff_indep_off deps i0) ->
  forall a, apply_writes (jac_fwd_omp O M t indeps deps ordf d0 i0) mem a = apply_writes (jac_fwd_serial O M t indeps deps d0 i0) mem a /\
            apply_writes (jac_rev_omp O M t indeps deps ordr d0 i0) mem a = apply_writes (jac_rev_serial O M t indeps deps d0 i0) mem a.
Proof.
  intros HM t indeps deps d0 i0 ordf ordr mem Hf Hr Hinj a.
  destruct (omp_same_writes M HM t indeps deps d0 i0 ordf ordr Hf Hr) as [P1 P2]. split.
  - apply apply_writes_perm; [exact P1|].
    eapply Permutation_NoDup; [apply Permutation_map; symmetry; apply (fwd_omp_perm O M HM); exact Hf|].
    apply canon_addr_NoDup. exact Hinj.
  - apply apply_writes_perm; [exact P2|].
    eapply Permutation_NoDup; [apply Permutation_map; symmetry; apply (rev_omp_perm O Rth eqb_true M HM); exact Hr|].
    apply canon_addr_NoDup. exact Hinj.
Qed.

Lemma canon_keys_NoDup indeps deps (J : nat -> nat -> T) doff ioff :
  NoDup (map (fun w => (w_dep w, w_indep w)) (canon indeps deps J doff ioff)).
Proof. unfold canon. rewrite map_map. simpl. rewrite (map_ext _ (fun x => x)) by (intros [a b]; reflexivity).
  rewrite map_id. apply cells_NoDup. Qed.
Lemma omp_blocks_disjoint M : 1 <= M -> forall (t : tape) indeps deps d0 i0,
  NoDup (map (fun w => (w_dep w, w_indep w)) (jac_fwd_omp O M t indeps deps (seq 0 (omp_blocks M (length indeps))) d0 i0)) /\
  NoDup (map (fun w => (w_dep w, w_indep w)) (jac_rev_omp O M t indeps deps (seq 0 (omp_blocks M (length deps))) d0 i0)).
Proof.
  intros HM t indeps deps d0 i0. split.
  - eapply Permutation_NoDup; [apply Permutation_map; symmetry; apply (fwd_omp_perm O M HM); reflexivity|apply canon_keys_NoDup].
  - eapply Permutation_NoDup; [apply Permutation_map; symmetry; apply (rev_omp_perm O Rth eqb_true M HM); reflexivity|apply canon_keys_NoDup].
Qed.
End Omp.
