(* C17: the integer functions of the ten storage engines (generated from the source) implement the
   dense matrix they stand for.  Every lemma is for all dimensions, offsets and band widths that
   satisfy the stated layout hypothesis. *)
From Coq Require Import ZArith List Bool Lia.
From AdeptGen Require Import Gen_Engines.
From Adept Require Import Engines.
Import ListNotations.
Local Open Scope Z_scope.

Ltac b2p := repeat match goal with
  | H : _ && _ = true |- _ => apply andb_true_iff in H; destruct H
  | H : _ || _ = true |- _ => apply orb_true_iff in H; destruct H
  | H : _ && _ = false |- _ => apply andb_false_iff in H; destruct H
  | H : _ || _ = false |- _ => apply orb_false_iff in H; destruct H
  | H : negb _ = true |- _ => apply negb_true_iff in H
  | H : negb _ = false |- _ => apply negb_false_iff in H
  | H : (_ <=? _) = true |- _ => apply Z.leb_le in H
  | H : (_ <? _) = true |- _ => apply Z.ltb_lt in H
  | H : (_ >=? _) = true |- _ => rewrite Z.geb_leb in H
  | H : (_ >? _) = true |- _ => rewrite Z.gtb_ltb in H
  | H : (_ >=? _) = false |- _ => rewrite Z.geb_leb in H
  | H : (_ >? _) = false |- _ => rewrite Z.gtb_ltb in H
  | H : (_ =? _) = true |- _ => apply Z.eqb_eq in H
  | H : (_ <=? _) = false |- _ => apply Z.leb_gt in H
  | H : (_ <? _) = false |- _ => apply Z.ltb_ge in H
  | H : true = false |- _ => discriminate H
  | H : false = true |- _ => discriminate H
  end.
(* case split on every comparison occurring in the goal *)
Ltac cmp_cases := repeat match goal with
  | |- context[?a <=? ?b] => destruct (Z.leb_spec a b)
  | |- context[?a <? ?b] => destruct (Z.ltb_spec a b)
  | |- context[?a >=? ?b] => rewrite (Z.geb_leb a b)
  | |- context[?a >? ?b] => rewrite (Z.gtb_ltb a b)
  | |- context[?a =? ?b] => destruct (Z.eqb_spec a b)
  end.

(* when is (i,j) the position a symmetric engine stores for (i,j) and (j,i)? all others store (i,j) itself *)
Definition in_range (dim i j : Z) : Prop := 0 <= i < dim /\ 0 <= j < dim.
Definition band_ok (e : engine) (L U : Z) : Prop := match e with BandR | BandC => 0 <= L /\ 0 <= U | _ => True end.

(* ---------- every stored element lies inside the allocated data ---------- *)
Theorem index_in_bounds e L U dim off i j : 0 <= off -> in_range dim i j -> stored e L U i j = true ->
  0 <= index e L U i j off < data_size e L U dim off.
Proof. intros Ho [[? ?] [? ?]] Hs. destruct e; cbn [index data_size stored] in *; b2p; cmp_cases; nia. Qed.

(* ---------- distinct stored positions occupy distinct locations ---------- *)
Definition off_ok (e : engine) (L U dim off : Z) : Prop :=
  match e with BandR | BandC => L + U <= off | _ => dim <= off end.
(* the canonical representative of (i,j): symmetric engines store one triangle *)
Definition canon (e : engine) (i j : Z) : Z * Z :=
  match e with
  | SymLo => if i >=? j then (i, j) else (j, i)
  | SymUp => if i <=? j then (i, j) else (j, i)
  | _ => (i, j)
  end.
Ltac eq_by_tri a b := destruct (Z.lt_trichotomy a b) as [?|[?|?]]; [exfalso; nia| |exfalso; nia].
Theorem index_injective e L U dim off i j i' j' : band_ok e L U -> off_ok e L U dim off ->
  in_range dim i j -> in_range dim i' j' -> stored e L U i j = true -> stored e L U i' j' = true ->
  index e L U i j off = index e L U i' j' off -> canon e i j = canon e i' j'.
Proof.
  intros Hb Ho [[? ?] [? ?]] [[? ?] [? ?]] Hs Hs' E.
  destruct e; cbn [index stored canon off_ok band_ok] in *; b2p.
  - eq_by_tri i i'. subst. f_equal. nia.
  - eq_by_tri j j'. subst. f_equal. nia.
  - eq_by_tri i i'. subst. f_equal. nia.
  - eq_by_tri j j'. subst. f_equal. nia.
  - revert E. cmp_cases; intros E.
    + eq_by_tri i i'. subst. f_equal. nia.
    + eq_by_tri i j'. subst. assert (j = i') by nia. subst. reflexivity.
    + eq_by_tri j i'. subst. assert (i = j') by nia. subst. reflexivity.
    + eq_by_tri j j'. subst. assert (i = i') by nia. subst. reflexivity.
  - revert E. cmp_cases; intros E.
    + eq_by_tri i i'. subst. f_equal. nia.
    + eq_by_tri i j'. subst. assert (j = i') by nia. subst. reflexivity.
    + eq_by_tri j i'. subst. assert (i = j') by nia. subst. reflexivity.
    + eq_by_tri j j'. subst. assert (i = i') by nia. subst. reflexivity.
  - eq_by_tri i i'. subst. f_equal. nia.
  - eq_by_tri j j'. subst. f_equal. nia.
  - eq_by_tri i i'. subst. f_equal. nia.
  - eq_by_tri j j'. subst. f_equal. nia.
Qed.

Lemma nth_map_seq0 {A} (f : nat -> A) n k d : (k < n)%nat -> nth k (map f (seq 0 n)) d = f k.
Proof. intros H. rewrite (nth_indep _ d (f O)) by (rewrite map_length, seq_length; exact H).
  rewrite map_nth. rewrite seq_nth by exact H. reflexivity. Qed.

(* ---------- reading a row inside an expression yields the dense row ---------- *)
Section Read.
Context {T : Type} (zero : T).

(* generic: if f tracks the location, the traversal reads (guarded) data at f 0, f 1, ... *)
Lemma row_read_spec e L U (data : Z -> T) off e1 e2 (f : Z -> Z) : forall n k,
  (forall t, k <= t < k + Z.of_nat n -> f (t + 1) = f t + row_offset e L U off (f t) e1) ->
  row_read zero e L U n data off (f k) e1 e2 =
  map (fun t => if guard e L U (f (k + Z.of_nat t)) e1 e2 then data (f (k + Z.of_nat t)) else zero) (seq 0 n).
Proof.
  induction n as [|n IH]; intros k Hf; [reflexivity|]. cbn [row_read seq map].
  rewrite Z.add_0_r. f_equal. rewrite <- (Hf k) by lia. rewrite (IH (k + 1)) by (intros; apply Hf; lia).
  rewrite <- seq_shift, map_map. apply map_ext. intros t.
  replace (k + 1 + Z.of_nat t) with (k + Z.of_nat (S t)) by lia. reflexivity.
Qed.

(* layout hypothesis needed by the traversal: column-major engines and SymUp step by [off], which
   must be positive for the location to identify the column *)
Definition read_ok (e : engine) (off : Z) : Prop :=
  match e with BandC | SymUp | LowC | UpC => 1 <= off | SymLo => 0 <= off | _ => True end.

(* closed form of the location of column j while traversing row i *)
Definition loc_of (e : engine) (L U i off j : Z) : Z :=
  match e with
  | SymLo => if j <=? i then i * off + j else i + j * off
  | SymUp => if j <=? i then i + j * off else i * off + j
  | _ => index e L U i 0 off + j * row_offset e L U off 0 0
  end.

Theorem read_row_is_dense e L U (data : Z -> T) dim off i j : read_ok e off -> in_range dim i j ->
  nth (Z.to_nat j) (read_row zero e L U data dim off i) zero = dense zero e L U data off i j.
Proof.
  intros Hr [[Hi0 Hi1] [Hj0 Hj1]]. unfold read_row.
  assert (forall t, 0 <= t < 0 + Z.of_nat (Z.to_nat dim) ->
            loc_of e L U i off (t + 1) = loc_of e L U i off t + row_offset e L U off (loc_of e L U i off t) (extra1 e L U i off)) as Hstep.
  { intros t Ht. destruct e; cbn [loc_of index row_offset extra1 read_ok] in *; cmp_cases; nia. }
  assert (index e L U i 0 off = loc_of e L U i off 0) as H0.
  { destruct e; cbn [loc_of index row_offset]; cmp_cases; try nia; assert (i = 0) by lia; subst; lia. }
  rewrite H0. rewrite (row_read_spec e L U data off _ _ (loc_of e L U i off) (Z.to_nat dim) 0 Hstep).
  rewrite nth_map_seq0 by lia. rewrite Z.add_0_l, Z2Nat.id by lia.
  unfold dense.
  (* guard = stored, and the location is index(i,j) *)
  destruct e; cbn [loc_of index row_offset extra1 extra2 guard stored read_ok] in *;
    repeat match goal with |- context[if ?c then _ else _] => destruct c eqn:? end; b2p;
    try reflexivity; try (f_equal; nia); try (exfalso; nia).
Qed.
End Read.

(* ---------- transpose: same data, transposed engine (band widths exchanged) ---------- *)
Theorem transpose_dense {T} (zero : T) e L U (data : Z -> T) off i j : band_ok e L U ->
  let (L', U') := if transpose_swaps_LU e then (U, L) else (L, U) in
  dense zero (transpose_engine e L U) L' U' data off i j = dense zero e L U data off j i.
Proof.
  intros Hb.
  destruct e; cbn [transpose_swaps_LU transpose_engine band_ok] in *;
    try (destruct (L + U =? 0) eqn:E0); unfold dense; cbn [stored index];
    repeat match goal with |- context[if ?c then _ else _] => destruct c eqn:? end; b2p;
    try reflexivity; try (f_equal; nia); try (exfalso; nia); try (assert (i = j) by lia; subst; reflexivity).
Qed.

(* the engine T() returns can be traversed whenever the original can: for a matrix that owns its data the offset is
   pack_offset, and the only engine with pack_offset 0 (the diagonal matrix) keeps the row-major engine.
   Before the repair of DiagMatrix::T() this was false (BandR 0 0 -> BandC with offset 0) *)
Theorem transpose_read_ok e L U dim off : band_ok e L U -> 1 <= dim ->
  off = pack_offset e L U dim \/ (read_ok e off /\ 1 <= off) -> read_ok (transpose_engine e L U) off.
Proof.
  intros Hb Hd [->|[Hr Ho]];
    destruct e; cbn [transpose_engine band_ok pack_offset read_ok] in *;
    try (destruct (L + U =? 0) eqn:E; cbn [read_ok]; b2p); try exact I; try lia.
Qed.

(* ---------- diag_vector(k): element t of the returned vector is dense(t, t+k) / dense(t-k, t) ---------- *)
Theorem diag_vector_dense {T} (zero : T) e L U (data : Z -> T) dim off k t : 0 <= t < diag_len dim k ->
  (if 0 <=? k then stored e L U t (t + k) else stored e L U (t - k) t) = true ->
  data (diag_base e L U dim off k + t * (off + 1)) =
  (if 0 <=? k then dense zero e L U data off t (t + k) else dense zero e L U data off (t - k) t).
Proof.
  unfold diag_len, diag_base, dense. intros Ht Hs. destruct (Z.leb_spec 0 k); rewrite Hs; f_equal;
    destruct e; cbn [upper_offset lower_offset index]; cmp_cases; try nia; assert (k = 0) by lia; subst; lia.
Qed.

(* ---------- submatrix_on_diagonal(a,b): shifting the data pointer by (off+1)*a shifts both indices by a ---------- *)
Theorem submatrix_dense {T} (zero : T) e L U (data : Z -> T) off a i j :
  dense zero e L U (fun p => data (sub_base off a + p)) off i j = dense zero e L U data off (i + a) (j + a).
Proof.
  unfold dense, sub_base.
  assert (stored e L U (i + a) (j + a) = stored e L U i j) as ->.
  { destruct e; cbn [stored]; try reflexivity; cmp_cases; try reflexivity; lia. }
  destruct (stored e L U i j); [|reflexivity]. f_equal. destruct e; cbn [index]; cmp_cases; nia.
Qed.

(* ---------- assignment from an expression: row i writes column j at location index(i,j), for
   exactly the columns of the stored part of the row (one triangle for symmetric matrices) ---------- *)
Definition row_part (e : engine) (L U dim i j : Z) : Prop :=
  match e with
  | SymLo => 0 <= j <= i
  | SymUp => i <= j < dim
  | _ => 0 <= j < dim /\ stored e L U i j = true
  end.
Theorem assign_row_targets_spec e L U dim off i : band_ok e L U -> 0 <= i < dim ->
  forall j loc, In (j, loc) (assign_row_targets e L U dim off i) <-> (row_part e L U dim i j /\ loc = index e L U i j off).
Proof.
  intros Hb Hi j loc. unfold assign_row_targets. rewrite in_map_iff. split.
  - intros (k & E & Hk). apply in_seq in Hk. inversion E; subst; clear E.
    destruct e; cbn [rr_j_start rr_j_end rr_index_start rr_index_stride index row_part stored band_ok] in *;
      repeat match goal with
             | H : context[if ?c then _ else _] |- _ => destruct c eqn:?
             | |- context[if ?c then _ else _] => destruct c eqn:?
             end; b2p; repeat split; try lia; try nia;
      try (apply negb_true_iff; apply orb_false_iff; split; [rewrite Z.gtb_ltb; apply Z.ltb_ge|apply Z.ltb_ge]; lia);
      try (rewrite Z.geb_leb; apply Z.leb_le; lia); try (apply Z.leb_le; lia).
  - intros [Hp ->]. exists (Z.to_nat (j - rr_j_start e L U i dim off)).
    destruct e; cbn [rr_j_start rr_j_end rr_index_start rr_index_stride index row_part stored band_ok] in *;
      repeat match goal with
             | H : _ /\ _ |- _ => destruct H
             | H : context[if ?c then _ else _] |- _ => destruct c eqn:?
             | |- context[if ?c then _ else _] => destruct c eqn:?
             end; b2p; (split; [f_equal; rewrite ?Z2Nat.id by lia; nia|apply in_seq; lia]).
Qed.

(* ---------- writing one stored element changes exactly that entry (and its mirror image) ---------- *)
Theorem write_dense {T} (zero : T) e L U (data : Z -> T) dim off i j i' j' x :
  band_ok e L U -> off_ok e L U dim off -> in_range dim i j -> in_range dim i' j' ->
  stored e L U i j = true -> stored e L U i' j' = true ->
  dense zero e L U (fun p => if p =? index e L U i j off then x else data p) off i' j' =
  (if (fst (canon e i' j') =? fst (canon e i j)) && (snd (canon e i' j') =? snd (canon e i j)) then x
   else dense zero e L U data off i' j').
Proof.
  intros Hb Ho Hr Hr' Hs Hs'. unfold dense. rewrite Hs'.
  destruct (Z.eqb_spec (index e L U i' j' off) (index e L U i j off)) as [E|NE].
  - rewrite (index_injective e L U dim off i' j' i j Hb Ho Hr' Hr Hs' Hs E). rewrite !Z.eqb_refl. reflexivity.
  - destruct ((fst (canon e i' j') =? fst (canon e i j)) && (snd (canon e i' j') =? snd (canon e i j))) eqn:EC; [|reflexivity].
    exfalso. apply NE. b2p.
    destruct e; cbn [canon index fst snd] in *;
      repeat match goal with H : context[if ?c then _ else _] |- _ => destruct c eqn:? end; cbn [fst snd] in *; b2p; subst;
      cmp_cases; try reflexivity; try lia; try nia.
Qed.
