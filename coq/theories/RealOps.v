(* the real-number instance of the scalar record, with boolean comparisons decided classically (only the standard library) *)
From Coq Require Import Reals.
From Adept Require Import Scalar.
Local Open Scope R_scope.
Definition Rltb (x y : R) : bool := if Rlt_dec x y then true else false.
Definition Rleb (x y : R) : bool := if Rle_dec x y then true else false.
Definition Reqb (x y : R) : bool := if Req_EM_T x y then true else false.
Definition RO : Ops R := mkOps R 0 1 Rplus Rminus Rmult Rdiv Ropp Reqb Rltb Rleb.
