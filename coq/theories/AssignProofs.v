(* C04: array statements have element-wise value semantics despite aliasing: the assignment loop with
   the alias test of Array::operator= computes "evaluate the whole right-hand side, then store". *)
From Coq Require Import ZArith List Bool Lia.
From Adept Require Import View ViewProofs Assign.
Import ListNotations.
Local Open Scope Z_scope.

Lemma ViewProofs_NoDup_app {A} (l1 l2 : list A) : NoDup l1 -> NoDup l2 -> (forall x, In x l1 -> In x l2 -> False) -> NoDup (l1 ++ l2).
Proof. induction l1 as [|x l1 IH]; intros H1 H2 H; simpl; [exact H2|]. inversion H1; subst. constructor.
  - intro Hin. apply in_app_or in Hin. destruct Hin; [contradiction|]. apply (H x); [left; reflexivity|assumption].
  - apply IH; [assumption|assumption|]. intros y Hy. apply H. right. exact Hy. Qed.

(* ---------- footprint: every address of a view lies in [data_range] ---------- *)
Lemma range_go_bounds : forall ds ss idx lo hi a, length ds = length ss -> inb ds idx -> lo <= a <= hi ->
  let '(l, h) := range_go ds ss lo hi in l <= a + lin idx ss <= h.
Proof.
  induction ds as [|d ds IH]; intros [|s ss] idx lo hi a Hl Hi Ha; simpl in Hl; try discriminate.
  - destruct idx; simpl in *; [lia|contradiction].
  - destruct idx as [|i idx]; [contradiction|]. cbn [inb] in Hi. destruct Hi as [Hi Hi']. cbn [range_go lin].
    destruct (Z.leb_spec 0 s).
    + specialize (IH ss idx lo (hi + (d - 1) * s) (a + i * s) ltac:(lia) Hi' ltac:(nia)).
      destruct (range_go ds ss lo (hi + (d - 1) * s)) as [l h]. lia.
    + specialize (IH ss idx (lo + (d - 1) * s) hi (a + i * s) ltac:(lia) Hi' ltac:(nia)).
      destruct (range_go ds ss (lo + (d - 1) * s) hi) as [l h]. lia.
Qed.
Theorem footprint v idx : wfv v -> inb (dims v) idx -> let '(l, h) := data_range v in l <= addr v idx <= h.
Proof. intros Hw Hi. unfold data_range, addr. apply range_go_bounds; [exact Hw|exact Hi|lia]. Qed.

(* ---------- well-shaped expressions (the dimension check of operator=) ---------- *)
Fixpoint insert_at {A} (k : nat) (x : A) (l : list A) : list A :=
  match k, l with O, _ => x :: l | S k', h :: t => h :: insert_at k' x t | S _, [] => [x] end.
Inductive shape : aexp -> list Z -> Prop :=
| ShLeaf v ds : wfv (vw v) -> dims (vw v) = ds -> shape (ELeaf v) ds
| ShScalar c ds : shape (EScalar c) ds
| ShNeg e ds : shape e ds -> shape (ENeg e) ds
| ShBin o a b ds : shape a ds -> shape b ds -> shape (EBin o a b) ds
| ShNoAlias e ds : shape e ds -> shape (ENoAlias e) ds
| ShSpread d e ds n : shape e ds -> (d <= length ds)%nat -> shape (ESpread d e) (insert_at d n ds)
| ShOuter a b n1 n2 : shape a [n1] -> shape b [n2] -> shape (EOuter a b) [n1; n2].
Fixpoint no_noalias (e : aexp) : bool :=
  match e with
  | ENoAlias _ => false
  | ENeg a | ESpread _ a => no_noalias a
  | EBin _ a b | EOuter a b => no_noalias a && no_noalias b
  | _ => true
  end.

Lemma inb_remove_insert : forall d (ds : list Z) n idx, (d <= length ds)%nat -> inb (insert_at d n ds) idx -> inb ds (remove_at d idx).
Proof.
  induction d as [|d IH]; intros ds n idx Hd Hi.
  - simpl in Hi. destruct idx as [|i idx]; [contradiction|]. simpl in *. tauto.
  - destruct ds as [|h t]; [simpl in Hd; lia|]. simpl in Hi. destruct idx as [|i idx]; [contradiction|]. simpl in *.
    destruct Hi as [Hi Hi']. split; [exact Hi|]. apply (IH t n); [lia|exact Hi'].
Qed.

(* two memories that agree outside the window [lo,hi] of parent p *)
Definition agree_outside (p : nat) (lo hi : Z) (m m' : mem) : Prop :=
  forall p' a, (p' = p /\ lo <= a <= hi) \/ m p' a = m' p' a.

(* an expression whose alias test is negative reads nothing inside the window *)
Theorem not_aliased_independent e ds : shape e ds -> forall p lo hi, no_noalias e = true -> is_aliased e p lo hi = false ->
  forall m m', agree_outside p lo hi m m' -> forall idx, inb ds idx -> eval e m idx = eval e m' idx.
Proof.
  induction 1 as [v ds Hw Hd|c ds|e ds Hs IH|o a b ds Ha IHa Hb IHb|e ds Hs IH|d e ds n Hs IH Hdl|a b n1 n2 Ha IHa Hb IHb];
    intros p lo hi Hn Hal m m' Hag idx Hi; cbn [eval no_noalias is_aliased] in *.
  - subst ds. pose proof (footprint (vw v) idx Hw Hi) as Hf. destruct (data_range (vw v)) as [b t].
    destruct (Hag (par v) (addr (vw v) idx)) as [[Hp Hr]|E]; [|exact E].
    exfalso. subst p. rewrite Nat.eqb_refl in Hal. simpl in Hal. apply andb_false_iff in Hal.
    destruct Hal as [Hal|Hal]; [apply Z.leb_gt in Hal|apply Z.leb_gt in Hal]; lia.
  - reflexivity.
  - f_equal. eapply IH; eassumption.
  - apply andb_true_iff in Hn. destruct Hn. apply orb_false_iff in Hal. destruct Hal. f_equal; [eapply IHa|eapply IHb]; eassumption.
  - discriminate.
  - eapply IH; try eassumption. eapply inb_remove_insert; eassumption.
  - apply andb_true_iff in Hn. destruct Hn. apply orb_false_iff in Hal. destruct Hal.
    destruct idx as [|i [|j [|? ?]]]; simpl in Hi; try tauto. destruct Hi as (Hi & Hj & _).
    f_equal; [eapply IHa|eapply IHb]; try eassumption; simpl; tauto.
Qed.

(* ---------- indices are in bounds ---------- *)
Lemma indices_inb : forall ds idx, In idx (indices ds) -> inb ds idx.
Proof.
  induction ds as [|d ds IH]; intros idx H; simpl in H.
  - destruct H as [<-|[]]. exact I.
  - apply in_flat_map in H. destruct H as (i & Hi & H). apply in_map_iff in H. destruct H as (t & <- & Ht).
    apply in_seq in Hi. simpl. split; [|apply IH; exact Ht].
    lia.
Qed.

(* stores through the target stay inside its window *)
Lemma upd_agree p lo hi m m' a x : lo <= a <= hi -> agree_outside p lo hi m m' -> agree_outside p lo hi m (upd m' p a x).
Proof. intros Ha H p' a'. unfold upd. destruct (Nat.eqb_spec p' p) as [->|Hne]; simpl.
  - destruct (Z.eqb_spec a' a) as [->|]; [left; auto|apply H].
  - apply H. Qed.

(* ---------- the assignment loop against the specification ---------- *)
Lemma assign_loop_is_store t e p lo hi m0 :
  par t = p ->
  (forall i, inb (dims (vw t)) i -> lo <= addr (vw t) i <= hi) ->
  (forall m', agree_outside p lo hi m0 m' -> forall i, inb (dims (vw t)) i -> eval e m' i = eval e m0 i) ->
  forall idxs, (forall i, In i idxs -> inb (dims (vw t)) i) ->
  forall m, agree_outside p lo hi m0 m ->
  assign_loop t e idxs m = store_list t idxs (map (eval e m0) idxs) m.
Proof.
  intros Hp Hfoot Hind. induction idxs as [|i idxs IH]; intros Hin m Hag; [reflexivity|].
  cbn [assign_loop map store_list]. rewrite (Hind m Hag i) by (apply Hin; left; reflexivity).
  apply IH; [intros j Hj; apply Hin; right; exact Hj|]. rewrite Hp. apply upd_agree; [apply Hfoot; apply Hin; left; reflexivity|exact Hag].
Qed.

Lemma agree_refl p lo hi m : agree_outside p lo hi m m.
Proof. intros p' a. right. reflexivity. Qed.

(* t = e : for every target view, every well-shaped right-hand side without a noalias wrapper, every overlap *)
Theorem assign_correct t e m : wfv (vw t) -> shape e (dims (vw t)) -> no_noalias e = true ->
  assign t e m = assign_spec t e m.
Proof.
  intros Hw Hs Hn. unfold assign, assign_spec. destruct (data_range (vw t)) as [lo hi] eqn:Er.
  destruct (is_aliased e (par t) lo hi) eqn:Ea; [reflexivity|].
  apply (assign_loop_is_store t e (par t) lo hi m eq_refl).
  - intros i Hi. pose proof (footprint (vw t) i Hw Hi) as Hf. rewrite Er in Hf. exact Hf.
  - intros m' Hag i Hi. symmetry. eapply not_aliased_independent; eassumption.
  - intros i Hi. apply indices_inb. exact Hi.
  - apply agree_refl.
Qed.

(* ---------- compound assignment  t op= e  =  t = noalias(t op e) ---------- *)
Definition inj_view (v : view) : Prop := forall i j, inb (dims v) i -> inb (dims v) j -> addr v i = addr v j -> i = j.

(* when the other operand does not overlap the target, the result is the specification: the target's own
   element is read before it is written, later elements are untouched *)
Lemma store_list_other t : forall idxs vals m p a, (forall i, In i idxs -> (par t, addr (vw t) i) <> (p, a)) ->
  store_list t idxs vals m p a = m p a.
Proof.
  induction idxs as [|i idxs IH]; intros vals m p a H; [reflexivity|]. destruct vals as [|x xs]; [reflexivity|].
  cbn [store_list]. rewrite IH by (intros j Hj; apply H; right; exact Hj).
  unfold upd. destruct (Nat.eqb_spec p (par t)) as [->|]; simpl; [|reflexivity].
  destruct (Z.eqb_spec a (addr (vw t) i)) as [->|]; [|reflexivity]. exfalso. apply (H i); [left; reflexivity|reflexivity].
Qed.

Theorem assign_op_old_correct o t e m : wfv (vw t) -> inj_view (vw t) -> shape e (dims (vw t)) -> no_noalias e = true ->
  (let '(lo, hi) := data_range (vw t) in is_aliased e (par t) lo hi = false) ->
  assign_op_old o t e m = assign_op_spec o t e m.
Proof.
  intros Hw Hinj Hs Hn Hal. unfold assign_op_old, assign_op_spec, assign, assign_spec.
  destruct (data_range (vw t)) as [lo hi] eqn:Er. cbn [is_aliased].
  (* prove the loop equals the store for every suffix of the index list, remembering that indices still to
     come have not been written *)
  assert (forall done todo mm, indices (dims (vw t)) = done ++ todo -> NoDup (done ++ todo) ->
            agree_outside (par t) lo hi m mm ->
            (forall i, In i todo -> mm (par t) (addr (vw t) i) = m (par t) (addr (vw t) i)) ->
            assign_loop t (ENoAlias (EBin o (ELeaf t) e)) todo mm
            = store_list t todo (map (eval (EBin o (ELeaf t) e) m) todo) mm) as Hgen.
  { intros done todo. revert done. induction todo as [|i todo IH]; intros done mm Hsplit Hnd Hag Hfresh; [reflexivity|].
    assert (inb (dims (vw t)) i) as Hi by (apply indices_inb; rewrite Hsplit; apply in_or_app; right; left; reflexivity).
    cbn [assign_loop map store_list eval].
    rewrite (Hfresh i) by (left; reflexivity).
    rewrite <- (not_aliased_independent e (dims (vw t)) Hs (par t) lo hi Hn Hal m mm Hag i Hi).
    apply (IH (done ++ [i])).
    - rewrite <- app_assoc. exact Hsplit.
    - rewrite <- app_assoc. exact Hnd.
    - apply upd_agree; [|exact Hag]. pose proof (footprint (vw t) i Hw Hi) as Hf. rewrite Er in Hf. exact Hf.
    - intros j Hj. unfold upd. rewrite Nat.eqb_refl. simpl.
      destruct (Z.eqb_spec (addr (vw t) j) (addr (vw t) i)) as [E|_]; [|apply Hfresh; right; exact Hj].
      exfalso. assert (inb (dims (vw t)) j) as Hjb by (apply indices_inb; rewrite Hsplit; apply in_or_app; right; right; exact Hj).
      pose proof (Hinj j i Hjb Hi E) as ->. apply NoDup_remove_2 in Hnd. apply Hnd. apply in_or_app. right. exact Hj. }
  apply (Hgen [] (indices (dims (vw t))) m eq_refl); [|apply agree_refl|reflexivity].
  (* the index list has no repetition *)
  clear. simpl. induction (dims (vw t)) as [|d ds IH]; simpl; [repeat constructor; intros []|].
  assert (forall (k : nat) l, NoDup l -> NoDup (map (fun t0 : list Z => Z.of_nat k :: t0) l)) as Hmap.
  { intros k l Hl. apply FinFun.Injective_map_NoDup; [intros a b E; congruence|exact Hl]. }
  assert (forall n0 s0, NoDup (flat_map (fun i => map (fun t0 => Z.of_nat i :: t0) (indices ds)) (seq s0 n0))) as Hfm.
  { induction n0 as [|n0 IHn]; intros s0; simpl; [constructor|]. apply ViewProofs_NoDup_app.
    - apply Hmap. exact IH. - apply IHn.
    - intros x Hx Hy. apply in_map_iff in Hx. destruct Hx as (t0 & <- & _). apply in_flat_map in Hy. destruct Hy as (k & Hk & Hy).
      apply in_map_iff in Hy. destruct Hy as (t1 & E & _). apply in_seq in Hk. inversion E. lia. }
  apply Hfm.
Qed.

(* the loop depends on the expression only through its values *)
Lemma assign_loop_ext t e1 e2 : (forall m i, eval e1 m i = eval e2 m i) -> forall idxs m, assign_loop t e1 idxs m = assign_loop t e2 idxs m.
Proof. intros H idxs. induction idxs as [|i idxs IH]; intros m; [reflexivity|]. cbn [assign_loop]. rewrite H. apply IH. Qed.

(* compound assignment as repaired: t = noalias(t) op e meets the specification for EVERY e (overlapping or not):
   when e overlaps the target the whole right-hand side is evaluated first, otherwise the in-place loop is safe *)
Theorem assign_op_correct o t e m : wfv (vw t) -> inj_view (vw t) -> shape e (dims (vw t)) -> no_noalias e = true ->
  assign_op o t e m = assign_op_spec o t e m.
Proof.
  intros Hw Hinj Hs Hn.
  destruct (let '(lo, hi) := data_range (vw t) in is_aliased e (par t) lo hi) eqn:Eal.
  - unfold assign_op, assign_op_spec, assign, assign_spec. destruct (data_range (vw t)) as [lo hi]. cbn [is_aliased orb]. rewrite Eal. reflexivity.
  - rewrite <- (assign_op_old_correct o t e m Hw Hinj Hs Hn).
    + unfold assign_op, assign_op_old, assign. destruct (data_range (vw t)) as [lo hi]. cbn [is_aliased orb]. rewrite Eal.
      apply assign_loop_ext. intros m' i. reflexivity.
    + destruct (data_range (vw t)) as [lo hi]. exact Eal.
Qed.

(* ---------- where: t.where(mask) = e ---------- *)
Lemma where_loop_is_spec t mask e p lo hi m0 :
  par t = p ->
  (forall i, inb (dims (vw t)) i -> lo <= addr (vw t) i <= hi) ->
  (forall m', agree_outside p lo hi m0 m' -> forall i, inb (dims (vw t)) i -> eval e m' i = eval e m0 i) ->
  (forall m', agree_outside p lo hi m0 m' -> forall i, inb (dims (vw t)) i -> eval mask m' i = eval mask m0 i) ->
  forall idxs, (forall i, In i idxs -> inb (dims (vw t)) i) ->
  forall m, agree_outside p lo hi m0 m ->
  where_loop t mask e idxs m =
  fold_left (fun mm imx => let '(i, (mk, x)) := imx in if mk =? 0 then mm else upd mm (par t) (addr (vw t) i) x)
            (combine idxs (combine (map (eval mask m0) idxs) (map (eval e m0) idxs))) m.
Proof.
  intros Hp Hfoot Hinde Hindm. induction idxs as [|i idxs IH]; intros Hin m Hag; [reflexivity|].
  cbn [where_loop map combine fold_left].
  rewrite (Hindm m Hag i), (Hinde m Hag i) by (apply Hin; left; reflexivity).
  apply IH; [intros j Hj; apply Hin; right; exact Hj|].
  destruct (eval mask m0 i =? 0); [exact Hag|]. rewrite Hp. apply upd_agree; [apply Hfoot; apply Hin; left; reflexivity|exact Hag].
Qed.
Theorem where_correct t mask e m : wfv (vw t) -> shape e (dims (vw t)) -> shape mask (dims (vw t)) ->
  no_noalias e = true -> no_noalias mask = true -> assign_where t mask e m = where_spec t mask e m.
Proof.
  intros Hw Hse Hsm Hne Hnm. unfold assign_where, where_spec. destruct (data_range (vw t)) as [lo hi] eqn:Er.
  destruct (is_aliased e (par t) lo hi || is_aliased mask (par t) lo hi) eqn:Ea; [reflexivity|].
  apply orb_false_iff in Ea. destruct Ea as [Ea Em].
  apply (where_loop_is_spec t mask e (par t) lo hi m eq_refl).
  - intros i Hi. pose proof (footprint (vw t) i Hw Hi) as Hf. rewrite Er in Hf. exact Hf.
  - intros m' Hag i Hi. symmetry. eapply not_aliased_independent; eassumption.
  - intros m' Hag i Hi. symmetry. eapply not_aliased_independent; eassumption.
  - intros i Hi. apply indices_inb. exact Hi.
  - apply agree_refl.
Qed.

(* scalar fill writes every element of the view (any stride sign) - by definition of [fill]; the
   loop that used to skip negative strides is compared with it by the correspondence run *)
