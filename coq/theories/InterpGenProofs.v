(* the index / weight / validity computation translated from interp.h is the one of the hand model Interp.v (to which the
   theorems of Properties_C20.v apply), for coordinate vectors with at least two knots *)
From Coq Require Import List Arith Bool ZArith Lia.
From Adept Require Import Scalar Interp InterpDefs.
From AdeptGen Require Import Gen_Interp.
Import ListNotations.

Section Link.
Context {T : Type} (Op : Ops T).
Theorem generated_index_weight s p (x : list T) q : (2 <= length x)%nat ->
  iw_eval Op iw_table s p x q = index_weight Op s p x q.
Proof.
  intros Hn.
  assert (E1 : S (length x - 2) = (length x - 1)%nat) by lia.
  unfold iw_eval, index_weight, iw_table, branch_eval, side_eval, ceval.
  cbn [iw_order iw_inc iw_dec br_in1 br_in2 br_search br_w br_low br_side_low br_side_high sd_ind sd_lin sd_clamp_one c_rel c_l c_r weval kval ieval].
  change (Z.to_nat 1) with 1%nat. change (Z.to_nat 0) with 0%nat. rewrite ?E1.
  destruct (oltb Op (xs Op x 0) (xs Op x 1)).
  - destruct (oleb Op (xs Op x 0) q && oleb Op q (xs Op x (length x - 1))); [reflexivity|].
    destruct (oltb Op q (xs Op x 0)); destruct p; reflexivity.
  - destruct (oleb Op q (xs Op x 0) && oleb Op (xs Op x (length x - 1)) q); [reflexivity|].
    destruct (oltb Op (xs Op x 0) q); destruct p; reflexivity.
Qed.
End Link.
