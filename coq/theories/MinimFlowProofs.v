(* C18: a driver whose atoms are all safe hands only states inside the box to the user's call-backs, on every execution. *)
From Coq Require Import List Bool ZArith Lia.
From Adept Require Import Scalar Minim MinimProofs MinimFlow.
Import ListNotations.

Section FlowProofs.
Context {T : Type} (O : Ops T).
Hypothesis le_total : forall a b, oleb O a b = true \/ oleb O b a = true.
Hypothesis le_trans : forall a b c, oleb O a b = true -> oleb O b c = true -> oleb O a c = true.
Hypothesis lt_le : forall a b, oltb O a b = negb (oleb O b a).
Variables lo hi : list T.
Hypothesis Hbox : box_ok O lo hi.
Notation within := (within O lo hi).
Definition all_within (s : state) : Prop := forall v, within (s v).

Lemma upd_within s v u : all_within s -> within u -> all_within (upd s v u).
Proof. intros Hs Hu w. unfold upd. destruct (var_eqb w v); [exact Hu|apply Hs]. Qed.
Lemma step_safe s a s' o : safe_atom a = true -> all_within s -> step O lo hi s a s' o -> all_within s' /\ (forall x, o = Some x -> within x).
Proof.
  intros Hsafe Hs Hstep. destruct Hstep as [s v u Hu|s v u|s v|s v w|s v i up|s v|s b|s s' Hfree]; cbn in Hsafe; try discriminate.
  - split; [|discriminate]. apply upd_within; [exact Hs|]. apply (clamp_within O le_total lt_le); [exact Hbox|exact Hu].
  - split; [|discriminate]. apply upd_within; [exact Hs|]. apply (clamp_within O le_total lt_le); [exact Hbox|]. destruct (Hs v) as [Hl _]. exact Hl.
  - split; [|discriminate]. apply upd_within; [exact Hs|apply Hs].
  - split; [|discriminate]. apply upd_within; [exact Hs|]. apply set_nth_within; [apply Hs|]. intros Hi.
    destruct Hbox as [Hl Hb]. destruct (Hs v) as [Hlv _]. assert (Hi' : (i < length lo)%nat) by lia. specialize (Hb i Hi').
    destruct (le_total (nth i lo (o0 O)) (nth i lo (o0 O))) as [R|R]; destruct (le_total (nth i hi (o0 O)) (nth i hi (o0 O))) as [R'|R']; destruct up; split; assumption.
  - split; [exact Hs|]. intros x E. inversion E. subst. apply Hs.
  - split; [exact Hs|discriminate].
  - split; [|discriminate]. intros v. exact (Hfree v).
Qed.
Theorem exec_safe tr : forall s s' obs, Forall (fun a => safe_atom a = true) tr -> all_within s -> exec O lo hi s tr s' obs -> all_within s' /\ Forall within obs.
Proof.
  induction tr as [|a tr IH]; intros s s' obs Hsafe Hs Hex; inversion Hex; subst.
  - split; [exact Hs|constructor].
  - inversion Hsafe as [|? ? Ha Htr]; subst.
    match goal with H : step _ _ _ _ _ _ _ |- _ => destruct (step_safe _ _ _ _ Ha Hs H) as [Hs1 Ho] end.
    match goal with H : exec _ _ _ _ _ _ _ |- _ => destruct (IH _ _ _ Htr Hs1 H) as [Hs2 Hobs] end.
    split; [exact Hs2|]. destruct o as [x|]; [constructor; [apply Ho; reflexivity|exact Hobs]|exact Hobs].
Qed.
(* the form used with the generated programs: every atom of the trace belongs to a program that passes the check *)
Theorem program_safe (prog : list atom) tr s s' obs : safe prog = true -> (forall a, In a tr -> In a prog) -> all_within s -> exec O lo hi s tr s' obs ->
  Forall within obs /\ all_within s'.
Proof.
  intros Hp Hin Hs Hex. unfold safe in Hp. rewrite forallb_forall in Hp.
  assert (Hall : Forall (fun a => safe_atom a = true) tr) by (apply Forall_forall; intros a Ha; apply Hp, Hin, Ha).
  destruct (exec_safe tr s s' obs Hall Hs Hex) as [H1 H2]. split; assumption.
Qed.
End FlowProofs.
