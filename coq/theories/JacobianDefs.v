(* What tools/gen_jacobian.py emits (Gen_Jacobian.v): every store into jacobian_out and every seed statement of
   adept/jacobian.cpp with its routine, branch, loop bounds and index expressions; and what each has to satisfy to
   be the store / seed of the hand model Jacobian.v (fwd_block_writes, rev_block_writes, seed). *)
From Coq Require Import ZArith List Bool Lia.
Import ListNotations.
Local Open Scope Z_scope.

Inductive jroutine := FwdOmp | FwdSerial | RevOmp | RevSerial.
Inductive jvar := Videp | Viindep | Vi | Vi0 | Vdoff | Vioff | VM.   (* Vi0: i_independent (forward) / i_dependent (reverse) *)
Inductive jlist := Ldep | Lindep.                                      (* dependent_index_ / independent_index_ *)
Inductive jbound := BNDep | BNIndep | BBlock | BM | BExtra.
Inductive jexp := JVar (v : jvar) | JAdd (a b : jexp) | JMul (a b : jexp) | JLook (l : jlist) (e : jexp) | J2 (slot lane : jexp).
Record jsite := mkSite { s_routine : jroutine; s_unit : bool; s_cond : jvar; s_outer : jvar * jbound; s_inner : jvar * jbound; s_addr : jexp; s_src : jexp }.
Record jseed := mkSeed { d_routine : jroutine; d_inner : jvar * jbound; d_idx : jexp }.

Record jenv := mkEnv { e_idep : nat; e_iindep : nat; e_i : nat; e_i0 : nat; e_doff : Z; e_ioff : Z; e_M : Z; e_deps : list nat; e_indeps : list nat }.
Fixpoint jeval (en : jenv) (e : jexp) : Z :=
  match e with
  | JVar Videp => Z.of_nat (e_idep en) | JVar Viindep => Z.of_nat (e_iindep en) | JVar Vi => Z.of_nat (e_i en) | JVar Vi0 => Z.of_nat (e_i0 en)
  | JVar Vdoff => e_doff en | JVar Vioff => e_ioff en | JVar VM => e_M en
  | JAdd a b => jeval en a + jeval en b
  | JMul a b => jeval en a * jeval en b
  | JLook l x => Z.of_nat (nth (Z.to_nat (jeval en x)) (match l with Ldep => e_deps en | Lindep => e_indeps en end) 0%nat)
  | J2 s l => jeval en s * e_M en + jeval en l      (* element [slot][lane] of a block of MULTIPASS_SIZE lanes *)
  end.

Definition is_fwd (r : jroutine) : bool := match r with FwdOmp | FwdSerial => true | _ => false end.
Definition is_omp (r : jroutine) : bool := match r with FwdOmp | RevOmp => true | _ => false end.
Definition jvar_eqb (a b : jvar) : bool :=
  match a, b with Videp, Videp | Viindep, Viindep | Vi, Vi | Vi0, Vi0 | Vdoff, Vdoff | Vioff, Vioff | VM, VM => true | _, _ => false end.
Definition jbound_eqb (a b : jbound) : bool :=
  match a, b with BNDep, BNDep | BNIndep, BNIndep | BBlock, BBlock | BM, BM | BExtra, BExtra => true | _, _ => false end.
Definition inner_ok (r : jroutine) (b : jvar * jbound) : bool :=
  jvar_eqb (fst b) Vi && (if is_omp r then jbound_eqb (snd b) BBlock else jbound_eqb (snd b) BM || jbound_eqb (snd b) BExtra).

(* the address written by the model for (outer index, block start i0, lane i): Jacobian.fwd_block_writes / rev_block_writes *)
Definition model_addr (fwd unit : bool) (outer i0 i : nat) (doff ioff : Z) : Z :=
  if fwd then (if unit then Z.of_nat outer * doff + Z.of_nat i0 + Z.of_nat i else (Z.of_nat i0 + Z.of_nat i) * ioff + Z.of_nat outer * doff)
  else (if unit then Z.of_nat outer * ioff + Z.of_nat i0 + Z.of_nat i else Z.of_nat outer * ioff + (Z.of_nat i0 + Z.of_nat i) * doff).

Definition site_ok (s : jsite) : Prop :=
  let fwd := is_fwd (s_routine s) in
  jvar_eqb (s_cond s) (if fwd then Vioff else Vdoff) = true /\
  jvar_eqb (fst (s_outer s)) (if fwd then Videp else Viindep) = true /\
  jbound_eqb (snd (s_outer s)) (if fwd then BNDep else BNIndep) = true /\
  inner_ok (s_routine s) (s_inner s) = true /\
  forall en, let outer := if fwd then e_idep en else e_iindep en in
    jeval en (s_addr s) = model_addr fwd (s_unit s) outer (e_i0 en) (e_i en) (e_doff en) (e_ioff en) /\
    (* the work-array element copied: slot = gradient index of the outer variable, lane i *)
    jeval en (s_src s) = Z.of_nat (nth outer (if fwd then e_deps en else e_indeps en) 0%nat) * e_M en + Z.of_nat (e_i en).
Definition seed_ok (d : jseed) : Prop :=
  inner_ok (d_routine d) (d_inner d) = true /\
  forall en, jeval en (d_idx d) =
    Z.of_nat (nth (e_i0 en + e_i en) (if is_fwd (d_routine d) then e_indeps en else e_deps en) 0%nat) * e_M en + Z.of_nat (e_i en).

(* both branches of every loop nest of every routine are present *)
Definition jroutine_eqb (a b : jroutine) : bool :=
  match a, b with FwdOmp, FwdOmp | FwdSerial, FwdSerial | RevOmp, RevOmp | RevSerial, RevSerial => true | _, _ => false end.
Definition has_site (l : list jsite) (r : jroutine) (u : bool) (b : jbound) : bool :=
  existsb (fun s => jroutine_eqb (s_routine s) r && Bool.eqb (s_unit s) u && jbound_eqb (snd (s_inner s)) b) l.
Definition has_seed (l : list jseed) (r : jroutine) (b : jbound) : bool :=
  existsb (fun d => jroutine_eqb (d_routine d) r && jbound_eqb (snd (d_inner d)) b) l.
Definition sites_complete (l : list jsite) (ds : list jseed) : bool :=
  forallb (fun rb => has_site l (fst rb) true (snd rb) && has_site l (fst rb) false (snd rb) && has_seed ds (fst rb) (snd rb))
    [(FwdOmp, BBlock); (FwdSerial, BM); (FwdSerial, BExtra); (RevOmp, BBlock); (RevSerial, BM); (RevSerial, BExtra)].
