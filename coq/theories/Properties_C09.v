(* C09 — recording never writes outside its buffers, whatever their initial size.
   Models: Buffers.v (StackStorageOrig.h/.cpp, Stack.h preallocate functions) and the GENERATED site table
   AdeptGen.Gen_Sites (every check_space call of the current sources with its reservation expression). *)
From Coq Require Import ZArith List Lia String.
From Adept Require Import Buffers BuffersProofs Scalar ExprDefs Expr ReduceDefs Reduce ReduceProofs.
From AdeptGen Require Import Gen_Sites Gen_Ops Gen_Reduce.
Import ListNotations.
Local Open Scope Z_scope.

(* from ANY initial capacity k >= 1, a recording whose pushes respect the reservations stores
   nothing at or beyond the capacities the code computed *)
Theorem C09_no_out_of_bounds_store : forall k tr, 1 <= k -> safe 0 tr = true -> snd (brun (binit k) tr) = 0.
Proof. exact no_violation_any_capacity. Qed.
Print Assumptions C09_no_out_of_bounds_store.

(* a site "reserve R, push P, push_lhs" is within the discipline exactly when P <= R ... *)
Theorem C09_site_discipline : forall R P, 0 <= R -> (safe 0 (site_trace R P) = true <-> Z.of_nat P <= R).
Proof. exact site_safe_iff. Qed.
Print Assumptions C09_site_discipline.
(* ... then it is safe after any safe history, for every initial capacity ... *)
Theorem C09_site_safe_in_context : forall R P k prefix, 0 <= R -> Z.of_nat P <= R -> 1 <= k -> safe 0 prefix = true ->
  snd (brun (binit k) (prefix ++ site_trace R P)) = 0.
Proof. exact reserved_site_safe_in_context. Qed.
Print Assumptions C09_site_safe_in_context.
(* ... and a site that pushes more than R+1 does overflow for the initial capacity R+1 *)
Theorem C09_under_reservation_overflows : forall R P, 0 <= R -> R + 1 < Z.of_nat P ->
  0 < snd (brun (binit (R + 1)) (site_trace R P)).
Proof. exact site_overflows. Qed.
Print Assumptions C09_under_reservation_overflows.

(* GENERATED OBLIGATIONS: every check_space call in the current sources reserves at least the demand of
   its function, for all non-negative sizes *)
Definition nonneg (v : sizes) : Prop :=
  0 <= nact v /\ 0 <= sz v /\ 0 <= n v /\ 0 <= extra v /\ 0 <= newdims v /\ 0 <= dim0 v.
Theorem C09_every_site_reserves_enough : Forall (fun s => forall v, nonneg v -> demand s v <= reserve s v) sites.
Proof. unfold sites. repeat (constructor; [intros v (H1 & H2 & H3 & H4 & H5 & H6); cbn [demand reserve]; nia|]). constructor. Qed.
Print Assumptions C09_every_site_reserves_enough.

(* the recorded operations and statements do not depend on the capacities *)
Theorem C09_same_recording : forall k1 k2 tr, 1 <= k1 -> 1 <= k2 -> safe 0 tr = true ->
  same_content (fst (brun (binit k1) tr)) (fst (brun (binit k2) tr)).
Proof. exact same_recording_from_any_initial_capacity. Qed.
Print Assumptions C09_same_recording.
(* preallocate_statements / preallocate_operations change capacities only *)
Theorem C09_preallocate_speed_only : forall b e, is_prealloc e = true ->
  same_content b (fst (bstep b e)) /\ snd (bstep b e) = false.
Proof. exact prealloc_content. Qed.
Print Assumptions C09_preallocate_speed_only.

(* non-vacuity: initial capacity 1, the buffer grows twice, nothing is lost *)
Example C09_example :
  let tr := [ECheck 2; EPush 10; EPush 11; ELhs 1; EPreOps 5; ECheck 3; EPush 12; EPush 13; EPush 14; ELhsRange 3 7] in
  safe 0 tr = true /\ snd (brun (binit 1) tr) = 0 /\
  ops_rec (fst (brun (binit 1) tr)) = [10;11;12;13;14] /\ cap_ops (fst (brun (binit 1) tr)) = 13 /\
  n_st (fst (brun (binit 1) tr)) = 5.
Proof. vm_compute. repeat split. Qed.

(* the demand of two sites is DERIVED, not read by hand: (1) an expression statement never pushes more than E::n_active
   operations (the reservation of Active / ActiveReference / array element assignment), for every expression tree and every
   position; (2) the element loop of reduce_active pushes at most (n_active + extra_element_cost) * n operations, with the
   policies translated from reduce.h (what site reduce.h:reduce_active reserves) *)
Theorem C09_expression_demand_is_n_active : forall (T : Type) (F : FOps T) arrs (e : expr (T:=T)) A S scr w,
  (Z.of_nat (List.length (calc_gradient F arrs e A S scr w)) <= n_active e)%Z.
Proof. intros T F. exact (ExprProofs.pushes_le_n_active F). Qed.
Print Assumptions C09_expression_demand_is_n_active.
Theorem C09_reduction_demand_within_reservation : forall (T : Type) (F : FOps T) (minf pinf : T) t k (es : list (expr (T:=T))) na,
  Forall (fun e : expr (T:=T) => (n_active e <= na)%Z) es ->
  (Z.of_nat (ops_in_loop F minf pinf t (reduce_policy k) es) <= reduce_reservation na (rp_extra (reduce_policy k)) (Z.of_nat (List.length es)))%Z.
Proof. intros T F minf pinf t k es na. exact (loop_within_reservation F minf pinf t (reduce_policy k) es na (generated_extra_cost k)). Qed.
Print Assumptions C09_reduction_demand_within_reservation.
