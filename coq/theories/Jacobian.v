(* Blocked Jacobian drivers of adept/jacobian.cpp: serial (lines 196-312, 455-640) and OpenMP
   (127-194, 331-452) forward and reverse routines, the chooser and the Matrix overloads
   (643-706).  MULTIPASS_SIZE is the parameter [M].  A routine is modelled by the list of
   writes it performs into jacobian_out: (dependent number, independent number, address, value).
   Working buffers are maps slot -> lane -> T. *)
From Coq Require Import List Arith Bool ZArith.
From Adept Require Import Scalar Tape.
Import ListNotations.

Section Jac.
Context {T : Type} (O : Ops T).
Variable M : nat.                    (* MULTIPASS_SIZE *)
Variable t : tape (T:=T).
Variables indeps deps : list nat.   (* independent_index_, dependent_index_ *)
Notation n := (length indeps). Notation m := (length deps).
Notation "x + y" := (oadd O x y). Notation "x * y" := (omul O x y).

Definition mvec := nat -> nat -> T.
Definition lane (g : mvec) (i : nat) : vec := fun j => g j i.

(* seeds: gradient_multipass_b[idx[i0+i]*M+i] = 1.0 for i < bs, all else 0 *)
Definition seed (idx : list nat) (i0 bs : nat) : mvec :=
  fun j i => if (i <? bs) && (nth (i0 + i) idx 0 =? j) then o1 O else o0 O.

(* jacobian_forward_kernel (nl = M) / jacobian_forward_kernel_extra (nl = n_extra) *)
Definition fwd1m (nl : nat) (s : stmt) (g : mvec) : mvec :=
  let vals := map (fun i => rhs_val O (rhs s) (lane g i)) (seq 0 nl) in
  fun j i => if (j =? lhs s) && (i <? nl) then nth i vals (o0 O) else g j i.
Definition fwdm (nl : nat) (g : mvec) : mvec := fold_left (fun g s => fwd1m nl s g) t g.

(* reverse sweep on nl lanes with the "any lane non-zero" shortcut (n_non_zero) *)
Definition rev1m (nl : nat) (s : stmt) (g : mvec) : mvec :=
  let a := map (fun i => g (lhs s) i) (seq 0 nl) in
  let any := existsb (fun x => negb (oeqb O x (o0 O))) a in
  let g0 : mvec := fun j i => if (j =? lhs s) && (i <? nl) then o0 O else g j i in
  if any then
    fold_left (fun (g' : mvec) mi =>
                 let vals := map (fun i => g' (snd mi) i + fst mi * nth i a (o0 O)) (seq 0 nl) in
                 fun j i => if (j =? snd mi) && (i <? nl) then nth i vals (o0 O) else g' j i)
              (rhs s) g0
  else g0.
Definition revm (nl : nat) (g : mvec) : mvec := fold_right (fun s g => rev1m nl s g) g t.

Record wr := mkWr { w_dep : nat; w_indep : nat; w_addr : Z; w_val : T }.

(* offsets <= 0 are replaced by the size of the other dimension (jacobian.cpp:210-220) *)
Definition eff_dep_off (dep_off : Z) : Z := if (dep_off <=? 0)%Z then Z.of_nat n else dep_off.
Definition eff_indep_off (indep_off : Z) : Z := if (indep_off <=? 0)%Z then Z.of_nat m else indep_off.

(* copy-out of one forward block: both branches of "if (indep_offset == 1)" *)
Definition fwd_block_writes (g : mvec) (i0 bs : nat) (dep_off indep_off : Z) : list wr :=
  flat_map (fun idep =>
    map (fun i =>
      let a := if (indep_off =? 1)%Z
               then (Z.of_nat idep * dep_off + Z.of_nat i0 + Z.of_nat i)%Z
               else ((Z.of_nat i0 + Z.of_nat i) * indep_off + Z.of_nat idep * dep_off)%Z in
      mkWr idep (i0 + i) a (g (nth idep deps 0) i)) (seq 0 bs)) (seq 0 m).
(* copy-out of one reverse block: both branches of "if (dep_offset == 1)" *)
Definition rev_block_writes (g : mvec) (i0 bs : nat) (dep_off indep_off : Z) : list wr :=
  flat_map (fun iindep =>
    map (fun i =>
      let a := if (dep_off =? 1)%Z
               then (Z.of_nat iindep * indep_off + Z.of_nat i0 + Z.of_nat i)%Z
               else (Z.of_nat iindep * indep_off + (Z.of_nat i0 + Z.of_nat i) * dep_off)%Z in
      mkWr (i0 + i) iindep a (g (nth iindep indeps 0) i)) (seq 0 bs)) (seq 0 n).

(* serial forward: n/M full blocks with the full kernel, then n mod M with kernel_extra *)
Definition jac_fwd_serial (dep_off0 indep_off0 : Z) : list wr :=
  let dep_off := eff_dep_off dep_off0 in let indep_off := eff_indep_off indep_off0 in
  let nb := n / M in let ne := n mod M in
  flat_map (fun b => fwd_block_writes (fwdm M (seed indeps (M * b) M)) (M * b) M dep_off indep_off) (seq 0 nb)
  ++ (if 0 <? ne then fwd_block_writes (fwdm ne (seed indeps (M * nb) ne)) (M * nb) ne dep_off indep_off else []).

(* OpenMP forward: ceil(n/M) blocks, visited in [order]; always the full-width kernel *)
Definition omp_blocks (k : nat) : nat := (k + M - 1) / M.
Definition omp_block_size (k b : nat) : nat :=
  if (b =? omp_blocks k - 1) && (0 <? k mod M) then k mod M else M.
Definition jac_fwd_omp (order : list nat) (dep_off0 indep_off0 : Z) : list wr :=
  let dep_off := eff_dep_off dep_off0 in let indep_off := eff_indep_off indep_off0 in
  flat_map (fun b => let bs := omp_block_size n b in
              fwd_block_writes (fwdm M (seed indeps (M * b) bs)) (M * b) bs dep_off indep_off) order.

(* serial reverse: full blocks sweep all M lanes, the last block n_extra lanes *)
Definition jac_rev_serial (dep_off0 indep_off0 : Z) : list wr :=
  let dep_off := eff_dep_off dep_off0 in let indep_off := eff_indep_off indep_off0 in
  let nb := m / M in let ne := m mod M in
  flat_map (fun b => rev_block_writes (revm M (seed deps (M * b) M)) (M * b) M dep_off indep_off) (seq 0 nb)
  ++ (if 0 <? ne then rev_block_writes (revm ne (seed deps (M * nb) ne)) (M * nb) ne dep_off indep_off else []).
(* OpenMP reverse: every loop runs to block_size *)
Definition jac_rev_omp (order : list nat) (dep_off0 indep_off0 : Z) : list wr :=
  let dep_off := eff_dep_off dep_off0 in let indep_off := eff_indep_off indep_off0 in
  flat_map (fun b => let bs := omp_block_size m b in
              rev_block_writes (revm bs (seed deps (M * b) bs)) (M * b) bs dep_off indep_off) order.

(* the automatic chooser (jacobian.cpp:648-653, 681-688) *)
Definition jac_auto (dep_off indep_off : Z) : list wr :=
  if n <=? m then jac_fwd_serial dep_off indep_off else jac_rev_serial dep_off indep_off.

(* effect of a list of writes on a memory *)
Definition apply_writes (l : list wr) (mem : Z -> T) : Z -> T :=
  fold_left (fun mm w => fun a => if (a =? w_addr w)%Z then w_val w else mm a) l mem.

(* reference entries: column j by a tangent pass, row i by an adjoint pass *)
Definition J_fwd (idep j : nat) : T := fwd_sweep O t (unit_vec O (nth j indeps 0)) (nth idep deps 0).
Definition J_rev (idep j : nat) : T := rev_sweep O t (unit_vec O (nth idep deps 0)) (nth j indeps 0).
End Jac.
Arguments mkWr {T}. Arguments w_dep {T}. Arguments w_indep {T}. Arguments w_addr {T}. Arguments w_val {T}.
