(* C02 — forward, reverse and Jacobian results of one recording agree.
   Only property theorems; each closed by [exact]/[apply] of a lemma proved elsewhere.
   Models: Tape.v (sweeps, Stack.cpp:139-190), Jacobian.v (jacobian.cpp).  T is any commutative
   ring given by [ring_theory]; [eqb_true] is the only fact used about the "a != 0.0" test. *)
From Coq Require Import List Arith ZArith Permutation Ring.
From Adept Require Import Scalar Tape TapeAdjoint Jacobian JacobianProofs JacobianDefs JacobianGenProofs.
From AdeptGen Require Import Gen_Jacobian.
Import ListNotations.

Section C02.
Context {T : Type} (O : Ops T).
Hypothesis Rth : ring_theory (o0 O) (o1 O) (oadd O) (omul O) (osub O) (oneg O) (@eq T).
Hypothesis eqb_true : forall a b, oeqb O a b = true -> a = b.

(* v.(J u) = (J^T v).u for every tape whose indices are below n *)
Theorem C02_dot : forall n (t : tape) , Forall (wf_stmt n) t ->
  forall v u, dot O n (rev_sweep O t v) u = dot O n v (fwd_sweep O t u).
Proof. exact (adjoint_identity O Rth eqb_true). Qed.

(* row d of the adjoint pass and column i of the tangent pass give the same entry *)
Theorem C02_entry : forall n (t : tape) d i, Forall (wf_stmt n) t -> d < n -> i < n ->
  rev_sweep O t (unit_vec O d) i = fwd_sweep O t (unit_vec O i) d.
Proof. exact (reverse_entry_eq_forward_entry O Rth eqb_true). Qed.

(* every routine (serial forward, serial reverse, automatic, OpenMP in any block order) performs,
   up to order, exactly the writes {cell (i,j) at i*dep_off + j*indep_off := J(i,j)}, each once, for
   every block width M >= 1, every m, n (all residues mod M), repeated/overlapping index lists *)
Theorem C02_routines_agree : forall M, 1 <= M -> forall (t : tape) indeps deps ngrad,
  Forall (wf_stmt ngrad) t -> Forall (fun k => k < ngrad) indeps -> Forall (fun k => k < ngrad) deps ->
  forall d0 i0 ordf ordr,
  Permutation ordf (seq 0 (omp_blocks M (length indeps))) -> Permutation ordr (seq 0 (omp_blocks M (length deps))) ->
  let C := canon indeps deps (J_fwd O t indeps deps) (eff_dep_off indeps d0) (eff_indep_off deps i0) in
  Permutation (jac_fwd_serial O M t indeps deps d0 i0) C /\
  Permutation (jac_rev_serial O M t indeps deps d0 i0) C /\
  Permutation (jac_auto O M t indeps deps d0 i0) C /\
  Permutation (jac_fwd_omp O M t indeps deps ordf d0 i0) C /\
  Permutation (jac_rev_omp O M t indeps deps ordr d0 i0) C.
Proof. intros M HM t indeps deps ngrad Ht Hi Hd. exact (all_routines_agree O Rth eqb_true M HM t indeps deps ngrad Ht Hi Hd). Qed.

(* memory after a routine: every target cell holds its entry, every other address is untouched,
   whenever the (dependent, independent) -> address map is injective on the m x n rectangle *)
Theorem C02_final_memory : forall indeps deps (J : nat -> nat -> T) doff ioff L mem,
  Permutation L (canon indeps deps J doff ioff) -> addr_injective indeps deps doff ioff ->
  (forall i j, i < length deps -> j < length indeps -> apply_writes L mem (addr doff ioff i j) = J i j) /\
  (forall a, (forall i j, i < length deps -> j < length indeps -> a <> addr doff ioff i j) -> apply_writes L mem a = mem a).
Proof. intros indeps deps. exact (final_memory indeps deps). Qed.

(* layouts named in the property: raw pointer default = column-major m x n (dependents fastest);
   Matrix target = any positive strides where one dimension dominates (row- or column-major,
   transposed, strided views) *)
Theorem C02_layout_pointer_default : forall indeps deps : list nat,
  eff_dep_off indeps 1 = 1%Z /\ eff_indep_off deps 0 = Z.of_nat (length deps) /\
  addr_injective indeps deps 1 (Z.of_nat (length deps)).
Proof. intros. split; [reflexivity|]. split; [reflexivity|]. apply addr_inj_colmajor. Qed.
Theorem C02_layout_strided : forall (indeps deps : list nat) doff ioff, (1 <= doff)%Z -> (1 <= ioff)%Z ->
  (Z.of_nat (length indeps) * ioff <= doff)%Z \/ (Z.of_nat (length deps) * doff <= ioff)%Z ->
  eff_dep_off indeps doff = doff /\ eff_indep_off deps ioff = ioff /\ addr_injective indeps deps doff ioff.
Proof. intros indeps deps doff ioff H1 H2 H. exact (layout_strided indeps deps doff ioff H1 H2 H). Qed.
End C02.

Print Assumptions C02_dot.
Print Assumptions C02_entry.
Print Assumptions C02_routines_agree.
Print Assumptions C02_final_memory.
Print Assumptions C02_layout_pointer_default.
Print Assumptions C02_layout_strided.

(* non-vacuity over the integers: a 2-statement tape, repeated independent, M = 2, n = 3, m = 2 *)
Example C02_example :
  let t := [mkStmt 3 [(2%Z, 0); (3%Z, 1)]; mkStmt 4 [(5%Z, 3); (7%Z, 2)]] in
  Forall (wf_stmt 5) t /\
  map (fun a => apply_writes (jac_fwd_serial ZOps 2 t [0;1;0] [3;4] 1 0) (fun _ => (-7)%Z) (Z.of_nat a)) (seq 0 6)
    = [2; 10; 3; 15; 2; 10]%Z /\
  map (fun a => apply_writes (jac_rev_serial ZOps 2 t [0;1;0] [3;4] 1 0) (fun _ => (-7)%Z) (Z.of_nat a)) (seq 0 6)
    = [2; 10; 3; 15; 2; 10]%Z.
Proof. split; [repeat constructor|]. vm_compute. split; reflexivity. Qed.

(* tie G: every store into jacobian_out and every seed statement of adept/jacobian.cpp, TRANSLATED on each run
   (routine, branch of `if (<offset> == 1)`, loop variables and bounds, address expression, work-array element):
   the address is the one the model writes (model_addr = the formula of fwd_block_writes / rev_block_writes), the
   element copied is (gradient index of the outer variable, lane i), the tested offset and the loop bounds are the
   modelled ones, and both branches of every loop nest of all four routines are present *)
Theorem C02_generated_stores_and_seeds :
  Forall site_ok jacobian_sites /\ Forall seed_ok jacobian_seeds /\ sites_complete jacobian_sites jacobian_seeds = true.
Proof. exact (conj generated_sites_ok (conj generated_seeds_ok generated_sites_complete)). Qed.
Print Assumptions C02_generated_stores_and_seeds.
Theorem C02_model_address_is_the_models : forall (T : Type) (l : list nat) (g : nat -> nat -> T) i0 bs doff ioff w,
  (In w (fwd_block_writes l g i0 bs doff ioff) ->
     exists idep i, (i < bs)%nat /\ w_dep w = idep /\ w_indep w = (i0 + i)%nat /\ w_addr w = model_addr true (ioff =? 1)%Z idep i0 i doff ioff) /\
  (In w (rev_block_writes l g i0 bs doff ioff) ->
     exists iindep i, (i < bs)%nat /\ w_indep w = iindep /\ w_dep w = (i0 + i)%nat /\ w_addr w = model_addr false (doff =? 1)%Z iindep i0 i doff ioff).
Proof. intros T l g i0 bs doff ioff w. split; [exact (fwd_block_addr l g i0 bs doff ioff w)|exact (rev_block_addr l g i0 bs doff ioff w)]. Qed.
Print Assumptions C02_model_address_is_the_models.
