(* Known finding D8 as a machine-checked statement about the faithful model of the CURRENT source:
   DiagMatrix::T() is the column-major band engine with L = U = 0 and the packed offset 0, which violates
   the hypothesis [read_ok] of C17_read; its rows read as d_i d_i d_i.  This file is compiled by ./check C17
   for information: when it stops compiling the defect is no longer in the generated model. *)
From Coq Require Import ZArith List.
From AdeptGen Require Import Gen_Engines.
From Adept Require Import Engines.
Import ListNotations.
Local Open Scope Z_scope.
Example C17_diagT_refuted :
  let off := pack_offset BandR 0 0 3 in
  off = 0 /\ transpose_engine BandR = BandC /\
  read_row 0 BandC 0 0 (fun p => 7 + p) 3 off 1 = [8; 8; 8] /\
  map (fun j => dense 0 BandC 0 0 (fun p => 7 + p) off 1 j) [0; 1; 2] = [0; 8; 0].
Proof. vm_compute. repeat split. Qed.
