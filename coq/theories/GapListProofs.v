(* Invariant of the gap-list allocator model (GapList.v) and its consequences (C08).
   Key idea: a single pointwise *partition* equation.  For every index i >= 0 exactly one of
   the following holds: i lies in exactly one gap; i lies in exactly one live block; i is at
   or above i_gradient.  Written as  mult i gaps + cov i L + above = 1  it is preserved by
   every branch of the allocator by additive bookkeeping, and it implies that live blocks are
   pairwise disjoint, lie below i_gradient <= max_gradient, and that a block handed out by
   register was not live. *)
From Coq Require Import ZArith List Bool Lia.
From Adept Require Import GapList.
Import ListNotations.
Local Open Scope Z_scope.
Local Arguments Z.add : simpl never.
Local Arguments Z.sub : simpl never.
Local Arguments Z.leb : simpl never.
Local Arguments Z.ltb : simpl never.
Local Arguments Z.eqb : simpl never.

(* ---------- small list lemmas for set_nth / remove_nth / insert_nth ---------- *)
Lemma nth_error_set_nth_same {A} k (x:A) l : (k < length l)%nat -> nth_error (set_nth k x l) k = Some x.
Proof. revert k; induction l as [|h t IH]; intros [|k] H; simpl in *; try lia; auto. apply IH; lia. Qed.
Lemma nth_error_set_nth_other {A} k j (x:A) l : j <> k -> nth_error (set_nth k x l) j = nth_error l j.
Proof. revert k j; induction l as [|h t IH]; intros [|k] [|j] H; simpl; auto; try congruence. Qed.
Lemma length_set_nth {A} k (x:A) l : length (set_nth k x l) = length l.
Proof. revert k; induction l as [|h t IH]; intros [|k]; simpl; auto. Qed.
Lemma length_remove_nth {A} k (l:list A) : (k < length l)%nat -> length (remove_nth k l) = pred (length l).
Proof. revert k; induction l as [|h t IH]; intros [|k] H; simpl in *; try lia. rewrite IH by lia. destruct t; simpl in *; lia. Qed.
Lemma length_insert_nth {A} k (x:A) l : length (insert_nth k x l) = S (length l).
Proof. revert l; induction k as [|k IH]; intros [|h t]; simpl; auto. Qed.
Lemma nth_error_Some_lt {A} (l:list A) k x : nth_error l k = Some x -> (k < length l)%nat.
Proof. intros H. apply nth_error_Some. congruence. Qed.

Lemma Forall_set_nth {A} (P:A->Prop) k x l : Forall P l -> P x -> Forall P (set_nth k x l).
Proof. intros H Hx; revert k; induction H as [|h t Hh Ht IH]; intros [|k]; simpl; constructor; auto. Qed.
Lemma Forall_remove_nth {A} (P:A->Prop) k l : Forall P l -> Forall P (remove_nth k l).
Proof. intros H; revert k; induction H as [|h t Hh Ht IH]; intros [|k]; simpl; auto. Qed.
Lemma Forall_insert_nth {A} (P:A->Prop) k x l : Forall P l -> P x -> Forall P (insert_nth k x l).
Proof. intros H Hx; revert l H; induction k as [|k IH]; intros l H; destruct H; simpl; auto. Qed.
Lemma Forall_nth_error {A} (P:A->Prop) l k x : Forall P l -> nth_error l k = Some x -> P x.
Proof. intros H; revert k; induction H as [|h t Hh Ht IH]; intros [|k] E; simpl in E; try discriminate.
  - inversion E; subst; auto. - eauto. Qed.

(* ---------- the counting functions ---------- *)
Definition in01 (i lo hi : Z) : Z := if (lo <=? i) && (i <=? hi) then 1 else 0.
Fixpoint mult (i:Z) (l:list gap) : Z :=
  match l with [] => 0 | g :: t => in01 i (fst g) (snd g) + mult i t end.
Fixpoint cov (i:Z) (L:blocks) : Z :=
  match L with [] => 0 | b :: t => in01 i (fst b) (fst b + snd b - 1) + cov i t end.
Definition above (top i : Z) : Z := if top <=? i then 1 else 0.
Fixpoint total (L:blocks) : Z := match L with [] => 0 | b :: t => snd b + total t end.

Lemma in01_cases i lo hi : (lo <= i <= hi /\ in01 i lo hi = 1) \/ (~ (lo <= i <= hi) /\ in01 i lo hi = 0).
Proof. unfold in01. destruct (Z.leb_spec lo i), (Z.leb_spec i hi); simpl; lia. Qed.
Lemma above_cases top i : (top <= i /\ above top i = 1) \/ (i < top /\ above top i = 0).
Proof. unfold above. destruct (Z.leb_spec top i); lia. Qed.
Ltac cases_in01 :=
  repeat match goal with
  | |- context[in01 ?i ?a ?b] => let H := fresh "Hc" in
      destruct (in01_cases i a b) as [[? H]|[? H]]; rewrite H in *; clear H
  | H0 : context[in01 ?i ?a ?b] |- _ => let H := fresh "Hc" in
      destruct (in01_cases i a b) as [[? H]|[? H]]; rewrite H in *; clear H
  | |- context[above ?t ?i] => let H := fresh "Hc" in
      destruct (above_cases t i) as [[? H]|[? H]]; rewrite H in *; clear H
  | H0 : context[above ?t ?i] |- _ => let H := fresh "Hc" in
      destruct (above_cases t i) as [[? H]|[? H]]; rewrite H in *; clear H
  end.

Lemma mult_nonneg i l : 0 <= mult i l.
Proof. induction l as [|g t IH]; simpl; [lia|]. cases_in01; lia. Qed.
Lemma cov_nonneg i L : 0 <= cov i L.
Proof. induction L as [|g t IH]; simpl; [lia|]. cases_in01; lia. Qed.
Lemma mult_app i l1 l2 : mult i (l1 ++ l2) = mult i l1 + mult i l2.
Proof. induction l1 as [|g t IH]; simpl; lia. Qed.
Lemma mult_set_nth i k g g' l : nth_error l k = Some g ->
  mult i (set_nth k g' l) = mult i l - in01 i (fst g) (snd g) + in01 i (fst g') (snd g').
Proof. revert k; induction l as [|h t IH]; intros [|k] E; simpl in *; try discriminate.
  - inversion E; subst. lia. - rewrite (IH _ E). lia. Qed.
Lemma mult_remove_nth i k g l : nth_error l k = Some g ->
  mult i (remove_nth k l) = mult i l - in01 i (fst g) (snd g).
Proof. revert k; induction l as [|h t IH]; intros [|k] E; simpl in *; try discriminate.
  - inversion E; subst. lia. - rewrite (IH _ E). lia. Qed.
Lemma mult_insert_nth i k g l : mult i (insert_nth k g l) = mult i l + in01 i (fst g) (snd g).
Proof. revert l; induction k as [|k IH]; intros [|h t]; simpl; try lia. rewrite IH. lia. Qed.
Lemma cov_remove_nth i k b L : nth_error L k = Some b ->
  cov i (remove_nth k L) = cov i L - in01 i (fst b) (fst b + snd b - 1).
Proof. revert k; induction L as [|h t IH]; intros [|k] E; simpl in *; try discriminate.
  - inversion E; subst. lia. - rewrite (IH _ E). lia. Qed.
Lemma total_remove_nth k b L : nth_error L k = Some b -> total (remove_nth k L) = total L - snd b.
Proof. revert k; induction L as [|h t IH]; intros [|k] E; simpl in *; try discriminate.
  - inversion E; subst. lia. - rewrite (IH _ E). lia. Qed.
Lemma mult_ge_nth i k g l : nth_error l k = Some g -> in01 i (fst g) (snd g) <= mult i l.
Proof. revert k; induction l as [|h t IH]; intros [|k] E; simpl in *; try discriminate.
  - inversion E; subst. pose proof (mult_nonneg i t). lia.
  - specialize (IH _ E). destruct (in01_cases i (fst h) (snd h)) as [[_ ->]|[_ ->]]; lia. Qed.
Lemma cov_ge_nth i k b L : nth_error L k = Some b -> in01 i (fst b) (fst b + snd b - 1) <= cov i L.
Proof. revert k; induction L as [|h t IH]; intros [|k] E; simpl in *; try discriminate.
  - inversion E; subst. pose proof (cov_nonneg i t). lia.
  - specialize (IH _ E). destruct (in01_cases i (fst h) (fst h + snd h - 1)) as [[_ ->]|[_ ->]]; lia. Qed.

(* last element via rev / removelast, as used by the top-of-stack shortcut *)
Lemma rev_head_last {A} (l:list A) x r : rev l = x :: r -> l = removelast l ++ [x].
Proof. intros H. assert (l <> []) as Hn by (intro; subst; discriminate).
  rewrite (app_removelast_last x Hn) at 1. f_equal. f_equal.
  rewrite <- (rev_involutive l), H. simpl. apply last_last. Qed.
Lemma nth_error_last {A} (l:list A) x r : rev l = x :: r -> nth_error l (pred (length l)) = Some x.
Proof. intros H. pose proof (rev_head_last _ _ _ H) as E. rewrite E at 1.
  assert (length l = S (length (removelast l))) as HL.
  { rewrite E at 1. rewrite app_length. simpl. lia. }
  rewrite HL. simpl. rewrite nth_error_app2 by lia. rewrite Nat.sub_diag. reflexivity. Qed.
Lemma removelast_remove_nth {A} (l:list A) : removelast l = remove_nth (pred (length l)) l.
Proof. induction l as [|h t IH]; simpl; auto. destruct t as [|h' t']; simpl in *; auto. f_equal. exact IH. Qed.

(* ---------- search procedures ---------- *)
Lemma find_fit_spec n l : forall k0 k a b, find_fit n k0 l = Some (k,(a,b)) ->
  (k0 <= k)%nat /\ nth_error l (k - k0) = Some (a,b) /\ n <= b + 1 - a.
Proof. induction l as [|[a0 b0] t IH]; intros k0 k a b H; simpl in H; [discriminate|].
  destruct (Z.leb_spec n (b0 + 1 - a0)).
  - inversion H; subst. rewrite Nat.sub_diag. simpl. auto.
  - apply IH in H. destruct H as (H1 & H2 & H3). split; [lia|]. split; [|lia].
    replace (k - k0)%nat with (S (k - S k0)) by lia. exact H2. Qed.
Lemma search_spec idx n l : forall k0 k stt, search idx n k0 l = Some (k,stt) ->
  (k0 <= k)%nat /\ exists a b, nth_error l (k - k0) = Some (a,b) /\
   match stt with AtBase => idx = a - n | AtTop => idx = b + 1 /\ idx <> a - n | NewGap => True | NotFound => False end.
Proof. induction l as [|[a0 b0] t IH]; intros k0 k stt H; simpl in H; [discriminate|].
  destruct (Z.leb_spec idx (b0 + 1)).
  - inversion H; subst. split; [lia|]. exists a0, b0. rewrite Nat.sub_diag. split; [reflexivity|].
    destruct (Z.eqb_spec idx (a0 - n)); [assumption|]. destruct (Z.eqb_spec idx (b0+1)); auto.
  - apply IH in H. destruct H as (H1 & a & b & H2 & H3). split; [lia|]. exists a, b. split; [|exact H3].
    replace (k - k0)%nat with (S (k - S k0)) by lia. exact H2. Qed.
Lemma search_None_len idx n l k0 : search idx n k0 l = None -> True. Proof. auto. Qed.

(* ---------- the invariant ---------- *)
Definition gap_ok (g:gap) : Prop := 0 <= fst g <= snd g.
Definition block_ok (b:Z*Z) : Prop := 0 <= fst b /\ 1 <= snd b.
Definition cur_ok (c:option nat) (l:list gap) : Prop :=
  match c with Some k => (k < length l)%nat | None => True end.

Record Inv (s:st) (L:blocks) : Prop := mkInv {
  inv_gaps : Forall gap_ok (gaps s);
  inv_part : forall i, 0 <= i -> mult i (gaps s) + cov i L + above (ig s) i = 1;
  inv_nreg : nreg s = total L;
  inv_mg   : 0 <= ig s <= mg s;
  inv_blocks : Forall block_ok L;
  inv_cur  : cur_ok (cur s) (gaps s)
}.

Lemma Inv_init : Inv init [].
Proof. constructor; simpl; auto; try lia. intros i Hi. unfold above. destruct (Z.leb_spec 0 i); lia. Qed.

Lemma cur_ok_erase k c l : (k < length l)%nat -> cur_ok c l -> cur_ok (cur_after_erase k c) (remove_nth k l).
Proof. intros Hk. destruct c as [j|]; simpl; auto. intros Hj.
  destruct (Nat.eqb_spec j k); simpl; auto.
  destruct (Nat.ltb_spec k j); simpl; rewrite length_remove_nth by assumption; lia. Qed.

(* ---------- register ---------- *)
Ltac blk_cons := constructor; [unfold block_ok; simpl; lia|assumption].

Lemma register1_inv s L s' r : Inv s L -> register1 s = (s', r) ->
  Inv s' ((r,1) :: L) /\ (cov r L = 0) /\ 0 <= r.
Proof.
  intros [Hg Hp Hn Hm Hb Hc] E. unfold register1 in E.
  destruct (gaps s) as [|[a b] rest] eqn:EG.
  - inversion E; subst s' r; clear E. split; [|split].
    + constructor; simpl.
      * constructor.
      * intros i Hi. specialize (Hp i Hi). simpl in Hp.
        replace (ig s + 1 - 1) with (ig s) by lia. cases_in01; lia.
      * lia.
      * unfold bump_max. destruct (Z.ltb_spec (mg s) (ig s + 1)); lia.
      * blk_cons.
      * exact Hc.
    + assert (0 <= ig s) as H0 by lia. specialize (Hp _ H0). simpl in Hp.
      pose proof (cov_nonneg (ig s) L). cases_in01; lia.
    + lia.
  - inversion Hg as [|? ? Hab Hrest]; subst. unfold gap_ok in Hab; simpl in Hab.
    assert (cov a L = 0 /\ 0 <= a) as [Hcov Ha].
    { split; [|lia]. assert (0 <= a) as H0 by lia. specialize (Hp _ H0). simpl in Hp.
      pose proof (cov_nonneg a L). pose proof (mult_nonneg a rest). cases_in01; lia. }
    destruct (Z.ltb_spec b (a+1)); inversion E; subst s' r; clear E; (split; [|split; assumption]).
    + constructor; simpl.
      * assumption.
      * intros i Hi. specialize (Hp i Hi). simpl in Hp. replace (a + 1 - 1) with a by lia. cases_in01; lia.
      * lia.
      * lia.
      * blk_cons.
      * apply (cur_ok_erase 0 (cur s) ((a,b)::rest)); simpl; [lia|exact Hc].
    + constructor; simpl.
      * constructor; [unfold gap_ok; simpl; lia|assumption].
      * intros i Hi. specialize (Hp i Hi). simpl in Hp. replace (a + 1 - 1) with a by lia. cases_in01; lia.
      * lia.
      * lia.
      * blk_cons.
      * exact Hc.
Qed.

Lemma registerN_inv s L n s' r : Inv s L -> 1 <= n -> registerN s n = (s', r) ->
  Inv s' ((r,n) :: L) /\ (forall i, r <= i < r + n -> cov i L = 0) /\ 0 <= r.
Proof.
  intros [Hg Hp Hn Hm Hb Hc] H1 E. unfold registerN in E.
  destruct (find_fit n 0%nat (gaps s)) as [[k [a b]]|] eqn:EF.
  - apply find_fit_spec in EF. destruct EF as (_ & Hnth & Hlen). rewrite Nat.sub_0_r in Hnth.
    pose proof (Forall_nth_error _ _ _ _ Hg Hnth) as Hab. unfold gap_ok in Hab; simpl in Hab.
    pose proof (nth_error_Some_lt _ _ _ Hnth) as Hk.
    assert (forall i, a <= i < a + n -> cov i L = 0) as Hfree.
    { intros i Hi. assert (0 <= i) as H0 by lia. specialize (Hp _ H0).
      pose proof (mult_ge_nth i _ _ _ Hnth) as Hge. simpl in Hge.
      pose proof (cov_nonneg i L). cases_in01; lia. }
    destruct (Z.ltb_spec n (b + 1 - a)); inversion E; subst s' r; clear E; (split; [|split; [assumption|lia]]).
    + constructor; simpl.
      * apply Forall_set_nth; [assumption|unfold gap_ok; simpl; lia].
      * intros i Hi. specialize (Hp i Hi). rewrite (mult_set_nth i _ _ _ _ Hnth). simpl. cases_in01; lia.
      * lia.
      * lia.
      * blk_cons.
      * unfold cur_ok. rewrite length_set_nth. exact Hc.
    + constructor; simpl.
      * apply Forall_remove_nth; assumption.
      * intros i Hi. specialize (Hp i Hi). rewrite (mult_remove_nth i _ _ _ Hnth). simpl. cases_in01; lia.
      * lia.
      * lia.
      * blk_cons.
      * apply cur_ok_erase; assumption.
  - inversion E; subst s' r; clear E. split; [|split; [|lia]].
    + constructor; simpl.
      * assumption.
      * intros i Hi. specialize (Hp i Hi). cases_in01; lia.
      * lia.
      * unfold bump_max. destruct (Z.ltb_spec (mg s) (ig s + n)); lia.
      * blk_cons.
      * exact Hc.
    + intros i Hi. assert (0 <= i) as H0 by lia. specialize (Hp _ H0).
      pose proof (cov_nonneg i L). pose proof (mult_nonneg i (gaps s)). cases_in01; lia.
Qed.

(* ---------- unregister ---------- *)
(* The block being released is live: every index of it is covered, hence in no gap and below the top. *)
Lemma live_block_facts s L k idx n : Inv s L -> nth_error L k = Some (idx,n) ->
  0 <= idx /\ 1 <= n /\ idx + n <= ig s /\ (forall i, idx <= i < idx + n -> mult i (gaps s) = 0 /\ cov i L = 1).
Proof.
  intros [Hg Hp Hn Hm Hb Hc] E.
  pose proof (Forall_nth_error _ _ _ _ Hb E) as [Hb1 Hb2]; simpl in *.
  assert (forall i, idx <= i < idx + n -> mult i (gaps s) = 0 /\ cov i L = 1 /\ i < ig s) as HH.
  { intros i Hi. assert (0 <= i) as H0 by lia. specialize (Hp _ H0).
    pose proof (cov_ge_nth i _ _ _ E) as Hge. simpl in Hge.
    pose proof (mult_nonneg i (gaps s)). cases_in01; lia. }
  repeat split; try lia.
  - destruct (HH (idx + n - 1)) as (_ & _ & ?); lia.
  - apply HH; assumption. - apply HH; assumption.
Qed.

(* merging never changes multiplicities *)
Lemma merge_mult k stt g g' k' : Forall gap_ok g -> (k < length g)%nat -> merge k stt g = (g', k') ->
  (forall i, mult i g' = mult i g) /\ Forall gap_ok g' /\ (k' < length g')%nat.
Proof.
  intros Hg Hk E. unfold merge in E.
  assert (forall g0 k0, (g, k) = (g0, k0) ->
     (forall i, mult i g0 = mult i g) /\ Forall gap_ok g0 /\ (k0 < length g0)%nat) as Triv.
  { intros g0 k0 H; inversion H; subst; auto. }
  destruct stt; try (apply Triv; exact E).
  - destruct k as [|k0]; [apply Triv; exact E|].
    destruct (nth_error g k0) as [[pa pb]|] eqn:E1; [|apply Triv; exact E].
    destruct (nth_error g (S k0)) as [[a b]|] eqn:E2; [|apply Triv; exact E].
    destruct (Z.eqb_spec pb (a-1)) as [Hpb|]; [|apply Triv; exact E]. apply pair_equal_spec in E; destruct E as [<- <-]; subst pb. clear Triv.
    pose proof (Forall_nth_error _ _ _ _ Hg E1) as H1. pose proof (Forall_nth_error _ _ _ _ Hg E2) as H2.
    unfold gap_ok in H1, H2; simpl in H1, H2.
    assert (nth_error (set_nth (S k0) (pa,b) g) k0 = Some (pa, a-1)) as E3.
    { rewrite nth_error_set_nth_other by lia. exact E1. }
    split; [|split].
    + intros i. rewrite (mult_remove_nth i _ _ _ E3). rewrite (mult_set_nth i _ _ _ _ E2).
      cbn [fst snd]. cases_in01; lia.
    + apply Forall_remove_nth. apply Forall_set_nth; [assumption|]. unfold gap_ok; simpl; lia.
    + rewrite length_remove_nth; rewrite length_set_nth; lia.
  - destruct (nth_error g k) as [[a b]|] eqn:E1; [|apply Triv; exact E].
    destruct (nth_error g (S k)) as [[na nb]|] eqn:E2; [|apply Triv; exact E].
    destruct (Z.eqb_spec na (b+1)) as [Hna|]; [|apply Triv; exact E]. apply pair_equal_spec in E; destruct E as [<- <-]; subst na. clear Triv.
    pose proof (Forall_nth_error _ _ _ _ Hg E1) as H1. pose proof (Forall_nth_error _ _ _ _ Hg E2) as H2.
    unfold gap_ok in H1, H2; simpl in H1, H2.
    assert (nth_error (set_nth k (a,nb) g) (S k) = Some (b+1, nb)) as E3.
    { rewrite nth_error_set_nth_other by lia. exact E2. }
    pose proof (nth_error_Some_lt _ _ _ E2).
    split; [|split].
    + intros i. rewrite (mult_remove_nth i _ _ _ E3). rewrite (mult_set_nth i _ _ _ _ E1).
      cbn [fst snd]. cases_in01; lia.
    + apply Forall_remove_nth. apply Forall_set_nth; [assumption|]. unfold gap_ok; simpl; lia.
    + rewrite length_remove_nth; rewrite length_set_nth; lia.
Qed.

(* what the "find the place" phase (cursor shortcut or linear search) produces *)
Definition placed (s:st) (idx n:Z) (k:nat) (g:list gap) : Prop :=
  Forall gap_ok g /\ (k < length g)%nat /\
  forall i, mult i g = mult i (gaps s) + in01 i idx (idx + n - 1).

Lemma place_at_base s idx n k a b : Forall gap_ok (gaps s) -> 0 <= idx -> 1 <= n ->
  nth_error (gaps s) k = Some (a,b) -> idx = a - n -> placed s idx n k (set_nth k (a-n,b) (gaps s)).
Proof. intros Hg H0 H1 E ->. pose proof (Forall_nth_error _ _ _ _ Hg E) as Hab. unfold gap_ok in Hab; simpl in Hab.
  split; [|split].
  - apply Forall_set_nth; [assumption|unfold gap_ok; simpl; lia].
  - rewrite length_set_nth. eapply nth_error_Some_lt; eauto.
  - intros i. rewrite (mult_set_nth i _ _ _ _ E). simpl. cases_in01; lia. Qed.
Lemma place_at_top s idx n k a b : Forall gap_ok (gaps s) -> 0 <= idx -> 1 <= n ->
  nth_error (gaps s) k = Some (a,b) -> idx = b + 1 -> placed s idx n k (set_nth k (a,b+n) (gaps s)).
Proof. intros Hg H0 H1 E ->. pose proof (Forall_nth_error _ _ _ _ Hg E) as Hab. unfold gap_ok in Hab; simpl in Hab.
  split; [|split].
  - apply Forall_set_nth; [assumption|unfold gap_ok; simpl; lia].
  - rewrite length_set_nth. eapply nth_error_Some_lt; eauto.
  - intros i. rewrite (mult_set_nth i _ _ _ _ E). simpl. cases_in01; lia. Qed.

Lemma unregisterN_inv s L k idx n : Inv s L -> nth_error L k = Some (idx,n) ->
  Inv (unregisterN s idx n) (remove_nth k L).
Proof.
  intros HI E. pose proof (live_block_facts _ _ _ _ _ HI E) as (H0 & H1 & Htop & Hlive).
  destruct HI as [Hg Hp Hn Hm Hb Hc].
  assert (forall i, cov i (remove_nth k L) = cov i L - in01 i idx (idx + n - 1)) as Hcov.
  { intros i. rewrite (cov_remove_nth i _ _ _ E). reflexivity. }
  assert (total (remove_nth k L) = total L - n) as Htot by (rewrite (total_remove_nth _ _ _ E); reflexivity).
  assert (Forall block_ok (remove_nth k L)) as Hb' by (apply Forall_remove_nth; assumption).
  unfold unregisterN. destruct (Z.eqb_spec (idx + n) (ig s)) as [Heq|Hne].
  - (* top of stack *)
    destruct (rev (gaps s)) as [|[a b] r] eqn:ER.
    + constructor; simpl; [assumption| |lia|lia|assumption|assumption].
      intros i Hi. specialize (Hp i Hi). rewrite Hcov.
      destruct (Z_lt_le_dec i idx); [|destruct (Z_lt_le_dec i (idx+n))].
      * cases_in01; lia. * destruct (Hlive i) as [? ?]; [lia|]. cases_in01; lia. * cases_in01; lia.
    + pose proof (nth_error_last _ _ _ ER) as Hlast.
      pose proof (Forall_nth_error _ _ _ _ Hg Hlast) as Hab. unfold gap_ok in Hab; simpl in Hab.
      pose proof (nth_error_Some_lt _ _ _ Hlast) as Hlen.
      destruct (Z.eqb_spec (ig s - n) (b+1)) as [Hadj|Hnadj].
      * constructor; simpl; [| |lia|lia|assumption|].
        -- rewrite removelast_remove_nth. apply Forall_remove_nth; assumption.
        -- intros i Hi. specialize (Hp i Hi). rewrite Hcov, removelast_remove_nth, (mult_remove_nth i _ _ _ Hlast). simpl.
           destruct (Z_lt_le_dec i idx); [|destruct (Z_lt_le_dec i (idx+n))].
           ++ cases_in01; lia. ++ destruct (Hlive i) as [? ?]; [lia|]. cases_in01; lia. ++ cases_in01; lia.
        -- rewrite removelast_remove_nth. apply cur_ok_erase; assumption.
      * constructor; simpl; [assumption| |lia|lia|assumption|assumption].
        intros i Hi. specialize (Hp i Hi). rewrite Hcov.
        destruct (Z_lt_le_dec i idx); [|destruct (Z_lt_le_dec i (idx+n))].
        -- cases_in01; lia. -- destruct (Hlive i) as [? ?]; [lia|]. cases_in01; lia. -- cases_in01; lia.
  - (* not at top: place, then merge *)
    assert (exists k0 stt g, place s idx n = (k0, stt, g) /\ placed s idx n k0 g) as HX.
    { unfold place.
      destruct (match cur s with Some k0 => _ | None => None end) as [[[k0 stt] g]|] eqn:EC.
      - exists k0, stt, g. split; [reflexivity|].
        destruct (cur s) as [kc|]; [|discriminate].
        destruct (nth_error (gaps s) kc) as [[a b]|] eqn:EN; [|discriminate].
        destruct (Z.eqb_spec idx (a - n)).
        + inversion EC; subst k0 stt g. eapply place_at_base; eauto.
        + destruct (Z.eqb_spec idx (b+1)); [|discriminate]. inversion EC; subst k0 stt g. eapply place_at_top; eauto.
      - clear EC. destruct (search idx n 0%nat (gaps s)) as [[k0 stt]|] eqn:ES.
        + apply search_spec in ES. destruct ES as (_ & a & b & Hnth & Hst). rewrite Nat.sub_0_r in Hnth.
          destruct stt; rewrite ?Hnth.
          * eexists _, _, _. split; [reflexivity|]. eapply place_at_base; eauto.
          * eexists _, _, _. split; [reflexivity|]. eapply place_at_top; eauto. tauto.
          * eexists _, _, _. split; [reflexivity|]. split; [|split].
            -- apply Forall_insert_nth; [assumption|unfold gap_ok; simpl; lia].
            -- rewrite length_insert_nth. apply nth_error_Some_lt in Hnth. lia.
            -- intros i. rewrite mult_insert_nth. reflexivity.
          * contradiction.
        + eexists _, _, _. split; [reflexivity|]. split; [|split].
          * apply Forall_app. split; [assumption|]. constructor; [unfold gap_ok; simpl; lia|constructor].
          * rewrite app_length. simpl. lia.
          * intros i. rewrite mult_app. simpl. lia. }
    destruct HX as (k0 & stt & g & -> & Hg' & Hk0 & Hmult).
    destruct (merge k0 stt g) as [g' k'] eqn:EM.
    destruct (merge_mult _ _ _ _ _ Hg' Hk0 EM) as (Hm1 & Hm2 & Hm3).
    constructor; simpl; [assumption| |lia|lia|assumption|exact Hm3].
    intros i Hi. specialize (Hp i Hi). rewrite Hm1, Hmult, Hcov. lia.
Qed.

Lemma new_recording_inv s L : Inv s L -> Inv (new_recording s) L.
Proof. intros [Hg Hp Hn Hm Hb Hc]. constructor; simpl; [assumption| |assumption|lia|assumption|assumption].
  intros i Hi. exact (Hp i Hi). Qed.

(* ---------- every reachable state ---------- *)
Lemma step_inv sL o : Inv (fst sL) (snd sL) -> Inv (fst (step sL o)) (snd (step sL o)).
Proof.
  destruct sL as [s L]; simpl. intros HI. destruct o as [|n|k|]; simpl.
  - destruct (register1 s) as [s' r] eqn:E. simpl. eapply register1_inv; eauto.
  - destruct (Z.leb_spec 1 n); [|exact HI]. destruct (registerN s n) as [s' r] eqn:E. simpl.
    eapply registerN_inv; eauto.
  - destruct (nth_error L k) as [[idx n]|] eqn:E; [|exact HI]. simpl. eapply unregisterN_inv; eauto.
  - apply new_recording_inv; assumption.
Qed.

Theorem run_inv ops : Inv (fst (run ops)) (snd (run ops)).
Proof.
  unfold run. assert (Inv (fst (init, @nil (Z*Z))) (snd (init, @nil (Z*Z)))) as H0 by exact Inv_init.
  revert H0. generalize (init, @nil (Z*Z)). induction ops as [|o ops IH]; intros sL H; cbn [fold_left]; [exact H|].
  apply IH. apply step_inv. exact H.
Qed.

(* ---------- consequences: the property as the user sees it ---------- *)
Definition in_block (i:Z) (b:Z*Z) : Prop := fst b <= i < fst b + snd b.

Lemma cov_two i L p q bp bq : p <> q -> nth_error L p = Some bp -> nth_error L q = Some bq ->
  in_block i bp -> in_block i bq -> 2 <= cov i L.
Proof.
  revert p q. induction L as [|h t IH]; intros [|p] [|q] Hpq Ep Eq Hp Hq; simpl in *; try discriminate; try lia.
  - inversion Ep; subst. pose proof (cov_ge_nth i _ _ _ Eq) as H. unfold in_block in *. cases_in01; lia.
  - inversion Eq; subst. pose proof (cov_ge_nth i _ _ _ Ep) as H. unfold in_block in *. cases_in01; lia.
  - assert (p <> q) by lia. specialize (IH _ _ H Ep Eq Hp Hq). cases_in01; lia.
Qed.

Theorem live_distinct s L : Inv s L -> forall p q bp bq i, p <> q ->
  nth_error L p = Some bp -> nth_error L q = Some bq -> in_block i bp -> in_block i bq -> False.
Proof.
  intros HI p q bp bq i Hpq Ep Eq Hp Hq.
  pose proof (cov_two _ _ _ _ _ _ Hpq Ep Eq Hp Hq) as H2.
  pose proof (Forall_nth_error _ _ _ _ (inv_blocks _ _ HI) Ep) as [Hb _]. unfold in_block in Hp.
  assert (0 <= i) as H0 by lia. pose proof (inv_part _ _ HI i H0) as HP.
  pose proof (mult_nonneg i (gaps s)). cases_in01; lia.
Qed.

Theorem live_below_max s L : Inv s L -> forall p bp i, nth_error L p = Some bp -> in_block i bp ->
  0 <= i < ig s /\ ig s <= mg s.
Proof.
  intros HI p bp i Ep Hp. pose proof (Forall_nth_error _ _ _ _ (inv_blocks _ _ HI) Ep) as [Hb _].
  unfold in_block in Hp. assert (0 <= i) as H0 by lia. pose proof (inv_part _ _ HI i H0) as HP.
  pose proof (cov_ge_nth i _ _ _ Ep) as Hge. pose proof (mult_nonneg i (gaps s)).
  pose proof (inv_mg _ _ HI). cases_in01; lia.
Qed.

Theorem registered_count s L : Inv s L -> nreg s = total L.
Proof. intros HI. exact (inv_nreg _ _ HI). Qed.

(* a freshly handed-out block was not live, for both entry points *)
Theorem register_fresh s L n : Inv s L -> 1 <= n -> forall i b p,
  fst (registerN s n) = fst (registerN s n) -> (* keeps the statement in terms of the model call *)
  snd (registerN s n) <= i < snd (registerN s n) + n -> nth_error L p = Some b -> ~ in_block i b.
Proof.
  intros HI Hn i b p _ Hi Ep Hib. destruct (registerN s n) as [s' r] eqn:E. simpl in Hi.
  destruct (registerN_inv _ _ _ _ _ HI Hn E) as (_ & Hfree & _). specialize (Hfree i Hi).
  pose proof (cov_ge_nth i _ _ _ Ep) as Hge. unfold in_block in Hib. cases_in01; lia.
Qed.

(* gaps never overlap one another nor a live block: direct reading of the partition *)
Theorem gaps_disjoint_from_live s L : Inv s L -> forall p bp k g i,
  nth_error L p = Some bp -> nth_error (gaps s) k = Some g -> in_block i bp -> ~ (fst g <= i <= snd g).
Proof.
  intros HI p bp k g i Ep Eg Hp Hg. pose proof (Forall_nth_error _ _ _ _ (inv_blocks _ _ HI) Ep) as [Hb _].
  unfold in_block in Hp. assert (0 <= i) as H0 by lia. pose proof (inv_part _ _ HI i H0) as HP.
  pose proof (cov_ge_nth i _ _ _ Ep) as Hge. pose proof (mult_ge_nth i _ _ _ Eg) as Hge2. cases_in01; lia.
Qed.
