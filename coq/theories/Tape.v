(* The derivative tape of adept::Stack and its two sweeps.
   Source: adept/Stack.cpp:139-190 (compute_adjoint, compute_tangent_linear); a statement is
   (index of the left-hand side, list of (multiplier, index)) = Statement + the slice of
   multiplier_/index_ it owns (StackStorageOrig.h).  Gradient vectors are total maps nat -> T. *)
From Coq Require Import List Arith Bool.
From Adept Require Import Scalar.
Import ListNotations.

Section Tape.
Context {T : Type} (O : Ops T).
Notation "x + y" := (oadd O x y). Notation "x * y" := (omul O x y).

Definition vec := nat -> T.
Definition upd (g : vec) (j : nat) (x : T) : vec := fun i => if Nat.eqb i j then x else g i.
Definition unit_vec (k : nat) : vec := fun j => if Nat.eqb j k then o1 O else o0 O.
Definition zero_vec : vec := fun _ => o0 O.

Record stmt := mkStmt { lhs : nat; rhs : list (T * nat) }.
Definition tape := list stmt.

(* Stack.cpp:178-183: a = 0; a += multiplier*gradient[index] in recorded order *)
Definition rhs_val (o : list (T * nat)) (g : vec) : T :=
  fold_left (fun a mi => a + fst mi * g (snd mi)) o (o0 O).
(* Stack.cpp:173-185 *)
Definition fwd1 (s : stmt) (g : vec) : vec := upd g (lhs s) (rhs_val (rhs s) g).
Definition fwd_sweep (t : tape) (g : vec) : vec := fold_left (fun g s => fwd1 s g) t g.

(* Stack.cpp:147-158: read a, zero the slot, and only if a != 0 scatter multiplier*a *)
Definition scatter (a : T) (o : list (T * nat)) (g : vec) : vec :=
  fold_left (fun g' mi => upd g' (snd mi) (g' (snd mi) + fst mi * a)) o g.
Definition rev1 (s : stmt) (g : vec) : vec :=
  let a := g (lhs s) in
  let g0 := upd g (lhs s) (o0 O) in
  if oeqb O a (o0 O) then g0 else scatter a (rhs s) g0.
(* statements are visited last to first *)
Definition rev_sweep (t : tape) (g : vec) : vec := fold_right (fun s g => rev1 s g) g t.

Fixpoint dot (n : nat) (v u : vec) : T :=
  match n with 0 => o0 O | S k => dot k v u + v k * u k end.

Definition wf_stmt (n : nat) (s : stmt) : Prop := lhs s < n /\ Forall (fun mi => snd mi < n) (rhs s).

(* add_derivative_dependence / append_derivative_dependence (Stack.h:586-623, Active.h:391-455):
   zero multipliers are not recorded *)
Definition drop_zeros (o : list (T * nat)) : list (T * nat) :=
  filter (fun mi => negb (oeqb O (fst mi) (o0 O))) o.
End Tape.
Arguments mkStmt {T}. Arguments lhs {T}. Arguments rhs {T}.
