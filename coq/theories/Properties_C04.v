(* C04 — array statements have element-wise value semantics despite aliasing / layout.
   Model Assign.v: memory, views (View.v), expression trees, the alias test and the element-by-element
   assignment loop of Array::operator=.  [assign_spec]: evaluate every right-hand-side element on the
   initial memory, then store. *)
From Coq Require Import ZArith List Bool.
From Adept Require Import View ViewProofs Assign AssignProofs AssignGen.
From AdeptGen Require Import Gen_Alias.
Import ListNotations.
Local Open Scope Z_scope.

(* every element a view can address lies in the address range used by the alias test, for any rank and any
   sign of each stride *)
Theorem C04_footprint : forall v idx, wfv v -> inb (dims v) idx -> let '(l, h) := data_range v in l <= addr v idx <= h.
Proof. exact footprint. Qed.
Print Assumptions C04_footprint.

(* a negative alias test is sound: the expression (leaves, scalars, element-wise operators, spread,
   outer_product - every node forwards the query) reads nothing inside the target's address window *)
Theorem C04_alias_test_sound : forall e ds, shape e ds -> forall p lo hi, no_noalias e = true -> is_aliased e p lo hi = false ->
  forall m m', agree_outside p lo hi m m' -> forall idx, inb ds idx -> eval e m idx = eval e m' idx.
Proof. exact not_aliased_independent. Qed.
Print Assumptions C04_alias_test_sound.

(* plain assignment: for every target view (any rank, stride signs, overlap with the right-hand side),
   the result is "evaluate the whole right-hand side first, then store"; noalias is the only escape *)
Theorem C04_assign : forall t e m, wfv (vw t) -> shape e (dims (vw t)) -> no_noalias e = true ->
  assign t e m = assign_spec t e m.
Proof. exact assign_correct. Qed.
Print Assumptions C04_assign.

(* conditional assignment *)
Theorem C04_where : forall t mask e m, wfv (vw t) -> shape e (dims (vw t)) -> shape mask (dims (vw t)) ->
  no_noalias e = true -> no_noalias mask = true -> assign_where t mask e m = where_spec t mask e m.
Proof. exact where_correct. Qed.
Print Assumptions C04_where.

(* compound assignment t op= e (executed as t = noalias(t) op e since the repair 2198a7e): the specification for EVERY
   right-hand side, overlapping the target or not, at equal or shifted positions.  Before the repair the statement was
   false of the library and of the faithful model (t = noalias(t op e), kept as assign_op_old) for shifted overlaps *)
Theorem C04_compound : forall o t e m, wfv (vw t) -> inj_view (vw t) -> shape e (dims (vw t)) -> no_noalias e = true ->
  assign_op o t e m = assign_op_spec o t e m.
Proof. exact assign_op_correct. Qed.
Print Assumptions C04_compound.
(* ... and what the old form could not do, machine-checked: v(1:3) += v(0:2) on 1..5 *)
Example C04_compound_old_form_refuted_new_form_correct :
  let v b := mkPV 0 (mkView b [3] [1]) in
  let m0 : mem := fun _ a => (a + 1)%Z in
  map (fun a => assign_op_old BAdd (v 1%Z) (ELeaf (v 0%Z)) m0 0%nat a) [0;1;2;3;4]%Z = [1; 3; 6; 10; 5]%Z /\
  map (fun a => assign_op BAdd (v 1%Z) (ELeaf (v 0%Z)) m0 0%nat a) [0;1;2;3;4]%Z = [1; 3; 5; 7; 5]%Z.
Proof. vm_compute. split; reflexivity. Qed.

(* non-vacuity: v(1:3) = v(0:2) + v(2:4) on v = 1..5 - overlapping on both sides, copied through a temporary *)
Example C04_example :
  let v b := mkPV 0 (mkView b [3] [1]) in
  let m0 : mem := fun _ a => a + 1 in
  let e := EBin BAdd (ELeaf (v 0)) (ELeaf (v 2)) in
  shape e [3] /\ map (fun a => assign (v 1) e m0 0%nat a) [0;1;2;3;4] = [1; 4; 6; 8; 5].
Proof. split; [repeat constructor|vm_compute; reflexivity]. Qed.

(* Tie G.  Array::data_range and Array::is_aliased_ as read from Array.h on every run (initial bounds, the sign test on
   each stride, the two bound updates, the overlap comparison) are the model's [data_range] and the array case of
   [is_aliased]; hence every address a view can reach lies inside the range the code computes, and the comparison the
   code makes answers false only for ranges that share no address.  FixedArray reports data_ .. data_+length_-1 and makes
   the same comparison. *)
Theorem C04_generated_alias_test : forall v p lo hi,
  gen_data_range (vw v) = data_range (vw v) /\
  gen_leaf_aliased v p lo hi = is_aliased (ELeaf v) p lo hi /\
  (forall idx, wfv (vw v) -> inb (dims (vw v)) idx ->
     let '(l, h) := gen_data_range (vw v) in l <= addr (vw v) idx <= h) /\
  (forall b t m1 m2 a, al_test b t m1 m2 = false -> b <= a <= t -> m1 <= a <= m2 -> False) /\
  (forall base len b t m1 m2, fdr_begin base len = base /\ fdr_end base len = base + len - 1 /\ fal_test b t m1 m2 = al_test b t m1 m2).
Proof.
  intros v p lo hi. split; [exact (gen_data_range_eq (vw v))|]. split; [exact (gen_leaf_aliased_eq v p lo hi)|].
  split; [intros idx Hw Hi; rewrite gen_data_range_eq; exact (footprint (vw v) idx Hw Hi)|].
  split; [exact al_test_false_disjoint|].
  intros base len b t m1 m2. exact (conj (proj1 (gen_fixed_range base len)) (conj (proj2 (gen_fixed_range base len)) (gen_fixed_test b t m1 m2))).
Qed.
Print Assumptions C04_generated_alias_test.

(* non-vacuity: a reversed 3 x 2 view with a negative row stride *)
Example C04_example_generated_range :
  gen_data_range (mkView 10 [3;2] [-4;1]) = (2, 11) /\ al_test 2 11 12 20 = false /\ al_test 2 11 11 20 = true.
Proof. vm_compute. repeat split. Qed.
