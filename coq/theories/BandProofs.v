(* C15: with the start pointer, leading dimension, (KL,KU) and wrapper arguments that the translator reads from the sources,
   what ?gbmv computes for row i is the defining sum over the stored band of the engine, for both storage orders, every
   dimension and every number of sub- and super-diagonals. *)
From Coq Require Import ZArith List Bool Lia.
From Adept Require Import Scalar Matmul MatmulProofs Band.
From AdeptGen Require Import Gen_Band Gen_Engines.
Import ListNotations.
Local Open Scope Z_scope.

Section BandProofs.
Context {T : Type} (O : Ops T).
Theorem band_mv_correct (row_major : bool) (L U dim : Z) (mem : Z -> T) (left_ptr x0 incx i : Z) :
  0 <= L -> 0 <= U -> 0 <= i < dim ->
  adept_band_mv O row_major L U dim mem left_ptr (pack_offset (if row_major then BandR else BandC) L U dim) x0 incx i
  = band_mv_spec O row_major L U dim mem left_ptr (pack_offset (if row_major then BandR else BandC) L U dim) x0 incx i.
Proof.
  intros HL HU Hi. unfold adept_band_mv, band_mv_spec, cppblas_gbmv_cell, band_call_kl_ku, band_start_shift, band_lda.
  destruct row_major; cbn [fst snd gbmv_row_major_args gbmv_col_major_args negb pack_offset f_gbmv_cell];
    apply (zsum_ext O); intros j Hj; unfold inband, stored, index.
  - (* row-major engine: the transposed problem, KL and KU exchanged *)
    assert (E : ((i - L <=? j) && (j <=? i + U)) = negb ((j - i >? U) || (j - i <? - L))).
    { destruct (Z.leb_spec (i - L) j), (Z.leb_spec j (i + U)), (Z.gtb_spec (j - i) U), (Z.ltb_spec (j - i) (- L)); cbn; try reflexivity; lia. }
    rewrite E. destruct (negb _); [|reflexivity]. f_equal. f_equal. lia.
  - assert (E : ((j - U <=? i) && (i <=? j + L)) = negb ((j - i >? U) || (j - i <? - L))).
    { destruct (Z.leb_spec (j - U) i), (Z.leb_spec i (j + L)), (Z.gtb_spec (j - i) U), (Z.ltb_spec (j - i) (- L)); cbn; try reflexivity; lia. }
    rewrite E. destruct (negb _); [|reflexivity]. f_equal. f_equal. lia.
Qed.

(* symmetric matrix in either storage orientation times a vector: the triangle ?symv is told to read (after the wrapper's
   exchange for row-major calls) is the one the symmetric engine stores, and its mirror is the engine's mirror *)
Theorem symm_mv_correct (row_lower_col_upper : bool) (n : Z) (mem : Z -> T) (left_ptr left_offset x0 incx i : Z) :
  adept_symm_mv O row_lower_col_upper n mem left_ptr left_offset x0 incx i = symm_mv_spec O row_lower_col_upper n mem left_ptr left_offset x0 incx i.
Proof.
  unfold adept_symm_mv, symm_mv_spec, f_symv_cell, symv_wrapper_uplo, symv_call_row_major, symv_uplo_of_orient, symv_lda.
  apply (zsum_ext O). intros j Hj. f_equal. unfold symv_read, index.
  destruct row_lower_col_upper; cbn [negb].
  - destruct (Z.leb_spec i j), (Z.geb_spec i j); try (f_equal; lia). assert (i = j) by lia. subst. f_equal. lia.
  - destruct (Z.leb_spec j i), (Z.leb_spec i j); try (f_equal; lia). assert (i = j) by lia. subst. f_equal. lia.
Qed.
End BandProofs.
