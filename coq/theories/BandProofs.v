(* C15: with the start pointer, leading dimension, (KL,KU) and wrapper arguments that the translator reads from the sources,
   what ?gbmv computes for row i is the defining sum over the stored band of the engine, for both storage orders, every
   dimension and every number of sub- and super-diagonals. *)
From Coq Require Import ZArith List Bool Lia Ring.
From Adept Require Import Scalar Matmul MatmulProofs Band.
From AdeptGen Require Import Gen_Band Gen_Engines.
Import ListNotations.
Local Open Scope Z_scope.

Section BandProofs.
Context {T : Type} (O : Ops T).
Theorem band_mv_correct (row_major : bool) (L U dim : Z) (mem : Z -> T) (left_ptr x0 incx i : Z) :
  0 <= L -> 0 <= U -> 0 <= i < dim ->
  adept_band_mv O row_major L U dim mem left_ptr (pack_offset (if row_major then BandR else BandC) L U dim) x0 incx i
  = band_mv_spec O row_major L U dim mem left_ptr (pack_offset (if row_major then BandR else BandC) L U dim) x0 incx i.
Proof.
  intros HL HU Hi. unfold adept_band_mv, band_mv_spec, cppblas_gbmv_cell, band_call_kl_ku, band_start_shift, band_lda.
  destruct row_major; cbn [fst snd gbmv_row_major_args gbmv_col_major_args negb pack_offset f_gbmv_cell];
    apply (zsum_ext O); intros j Hj; unfold inband, stored, index.
  - (* row-major engine: the transposed problem, KL and KU exchanged *)
    assert (E : ((i - L <=? j) && (j <=? i + U)) = negb ((j - i >? U) || (j - i <? - L))).
    { destruct (Z.leb_spec (i - L) j), (Z.leb_spec j (i + U)), (Z.gtb_spec (j - i) U), (Z.ltb_spec (j - i) (- L)); cbn; try reflexivity; lia. }
    rewrite E. destruct (negb _); [|reflexivity]. f_equal. f_equal. lia.
  - assert (E : ((j - U <=? i) && (i <=? j + L)) = negb ((j - i >? U) || (j - i <? - L))).
    { destruct (Z.leb_spec (j - U) i), (Z.leb_spec i (j + L)), (Z.gtb_spec (j - i) U), (Z.ltb_spec (j - i) (- L)); cbn; try reflexivity; lia. }
    rewrite E. destruct (negb _); [|reflexivity]. f_equal. f_equal. lia.
Qed.

(* band matrix x dense matrix: every element of the result is the defining sum, and distinct (row, column) pairs are stored
   at the addresses of the result matrix (row stride aoff0, column stride aoff1) *)
Theorem band_mm_correct (row_major : bool) (L U dim : Z) (mem : Z -> T) (left_ptr x0 roff0 roff1 i c : Z) :
  0 <= L -> 0 <= U -> 0 <= i < dim ->
  adept_band_mm O row_major L U dim mem left_ptr (pack_offset (if row_major then BandR else BandC) L U dim) x0 roff0 roff1 i c
  = band_mm_spec O row_major L U dim mem left_ptr (pack_offset (if row_major then BandR else BandC) L U dim) x0 roff0 roff1 i c.
Proof.
  intros HL HU Hi. unfold adept_band_mm. rewrite (band_mv_correct row_major L U dim mem left_ptr _ _ i HL HU Hi).
  unfold band_mv_spec, band_mm_spec, band_mm_x_start, band_mm_incx.
  apply (zsum_ext O). intros j Hj. destruct (stored _ L U i j); [|reflexivity]. f_equal. f_equal. lia.
Qed.
Theorem band_mm_result_address y0 aoff0 aoff1 i c : band_mm_result_addr y0 aoff0 aoff1 i c = y0 + i * aoff0 + c * aoff1.
Proof. unfold band_mm_result_addr, band_mm_y_start, band_mm_incy. lia. Qed.

(* symmetric matrix in either storage orientation times a vector: the triangle ?symv is told to read (after the wrapper's
   exchange for row-major calls) is the one the symmetric engine stores, and its mirror is the engine's mirror *)
Theorem symm_mv_correct (row_lower_col_upper : bool) (n : Z) (mem : Z -> T) (left_ptr left_offset x0 incx i : Z) :
  adept_symm_mv O row_lower_col_upper n mem left_ptr left_offset x0 incx i = symm_mv_spec O row_lower_col_upper n mem left_ptr left_offset x0 incx i.
Proof.
  unfold adept_symm_mv, symm_mv_spec, f_symv_cell, symv_wrapper_uplo, symv_call_row_major, symv_uplo_of_orient, symv_lda.
  apply (zsum_ext O). intros j Hj. f_equal. unfold symv_read, index.
  destruct row_lower_col_upper; cbn [negb].
  - destruct (Z.leb_spec i j), (Z.geb_spec i j); try (f_equal; lia). assert (i = j) by lia. subst. f_equal. lia.
  - destruct (Z.leb_spec j i), (Z.leb_spec i j); try (f_equal; lia). assert (i = j) by lia. subst. f_equal. lia.
Qed.

(* symmetric matrix (either orientation) x matrix (row- or column-contiguous) through ?symm: the row-major variant of the
   wrapper - marked "FIX! CHECK ROW MAJOR VERSION IS RIGHT" in cppblas.cpp - is right: cell (i,j) is the defining sum and
   it is stored at (i,j) of the answer in the answer's own order *)
Hypothesis Rth : ring_theory (o0 O) (o1 O) (oadd O) (omul O) (osub O) (oneg O) (@eq T).
Lemma symv_read_engine (row_lower : bool) (upper : bool) (mem : Z -> T) (a0 off i k : Z) :
  upper = row_lower ->
  symv_read upper mem a0 off i k = mem (a0 + index (if row_lower then SymLo else SymUp) 0 0 i k off).
Proof.
  intros ->. unfold symv_read, index. destruct row_lower.
  - destruct (Z.leb_spec i k), (Z.geb_spec i k); try (f_equal; lia). assert (i = k) by lia. subst. f_equal. lia.
  - destruct (Z.leb_spec k i), (Z.leb_spec i k); try (f_equal; lia). assert (i = k) by lia. subst. f_equal. lia.
Qed.
Lemma symv_read_sym upper (mem : Z -> T) a0 lda i k : symv_read upper mem a0 lda i k = symv_read upper mem a0 lda k i.
Proof.
  unfold symv_read. destruct upper; destruct (Z.leb_spec i k), (Z.leb_spec k i); try reflexivity; try (f_equal; lia); assert (i = k) by lia; subst; reflexivity.
Qed.
Theorem symm_mm_correct (row_lower right_row : bool) (M N : Z) (mem : Z -> T) (left_ptr left_offset b0 rs i j : Z) :
  adept_symm_mm O row_lower right_row M N mem left_ptr left_offset b0 rs i j = symm_mm_spec O row_lower right_row M mem left_ptr left_offset b0 rs i j.
Proof.
  unfold adept_symm_mm, symm_mm_spec, cppblas_symm_cell, symm_call_side_left, symm_uplo_of, right_elem.
  destruct right_row; cbn [symm_row_major_args symm_col_major_args negb f_symm_cell]; apply (zsum_ext O); intros k Hk.
  - (* row-major call: side Right on the transposed problem *)
    rewrite (Rmul_comm Rth). rewrite symv_read_sym. rewrite (symv_read_engine row_lower) by (destruct row_lower; reflexivity).
    f_equal. f_equal. lia.
  - rewrite (symv_read_engine row_lower) by (destruct row_lower; reflexivity). reflexivity.
Qed.
Theorem symm_mm_addr (right_row : bool) (c0 cs i j : Z) :
  cppblas_symm_addr right_row c0 cs i j = if right_row then c0 + i * cs + j else c0 + i + j * cs.
Proof. unfold cppblas_symm_addr, f_symm_addr. destruct right_row; lia. Qed.

(* the statement recorded for row i of (band matrix) x (active vector) is the differential of the defining sum over the
   engine's window of stored columns [j_start, j_end): the multiplier of column j is the engine's element (i,j) and the
   gradient index is that of element j of the vector, whatever the vector's stride *)
Theorem band_statement_is_differential (row_major : bool) (L U dim : Z) (mem : Z -> T) (left_ptr off right_index incx i : Z) (g : Z -> T) :
  ops_val O (band_statement row_major L U dim mem left_ptr off right_index incx i) g =
  zsum O (band_j_end i U dim - band_j_start i L)
       (fun q => omul O (mem (left_ptr + index (if row_major then BandR else BandC) L U i (band_j_start i L + q) off))
                        (g (right_index + (band_j_start i L + q) * incx))).
Proof.
  unfold band_statement. rewrite (ops_val_push O). apply (zsum_ext O). intros q Hq.
  unfold band_index_start, band_index_stride, band_grad_start, band_grad_stride, index. destruct row_major; f_equal; f_equal; lia.
Qed.
End BandProofs.
