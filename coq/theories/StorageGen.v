(* The link operations of Storage as tools/gen_globals.py reads them from Storage.h on every run (the micro-steps of
   add_link / remove_link, the count a constructor starts with), run by one thread from start to end, are the link
   operations of the life-cycle model Storage.v.  (Conc.v runs the same micro-steps under every interleaving: C14.) *)
From Coq Require Import ZArith List Bool Lia.
From Adept Require Import Conc Storage.
From AdeptGen Require Import Gen_Globals.
Import ListNotations.
Local Open Scope Z_scope.

(* one object: count, deleted?, and whether the function threw *)
Record lobj := mkL { l_links : Z; l_deleted : bool; l_threw : bool }.
Definition seq_step (o : lobj) (m : mstep) : lobj :=
  if l_threw o then o else
  match m with
  | MCheckNonZero => if l_links o =? 0 then mkL (l_links o) (l_deleted o) true else o
  | MRmw d => mkL (l_links o + d) (l_deleted o) false
  | MRmwDeleteIfZero d => mkL (l_links o + d) (if l_links o + d =? 0 then true else l_deleted o) false
  | MLoadDeleteIfZero => mkL (l_links o) (if l_links o =? 0 then true else l_deleted o) false
  end.
Definition seq_run (ms : list mstep) (n : Z) : lobj := fold_left seq_step ms (mkL n false false).

Lemma generated_add_link : forall n, seq_run add_link_steps n = mkL (n + 1) false false.
Proof. intros n. reflexivity. Qed.

Lemma generated_remove_link : forall n,
  seq_run remove_link_steps n =
  if n =? 0 then mkL n false true else mkL (n - 1) (n - 1 =? 0) false.
Proof.
  intros n. unfold seq_run, remove_link_steps. cbn [fold_left].
  unfold seq_step at 2. cbn [l_threw l_links l_deleted].
  destruct (n =? 0) eqn:E; unfold seq_step; cbn [l_threw l_links l_deleted]; [reflexivity|].
  replace (n + -1) with (n - 1) by lia. destruct (n - 1 =? 0); reflexivity.
Qed.

(* the model's operations on an undeleted Storage with at least one link are those *)
Lemma model_add_link_is_generated : forall st s,
  freed (get_sto st s) = false -> (s < length (stos st))%nat ->
  let o := get_sto (add_link st s) s in
  links o = l_links (seq_run add_link_steps (links (get_sto st s))) /\ freed o = false /\ cells o = cells (get_sto st s).
Proof.
  intros st s Hf Hs. rewrite generated_add_link. cbn [l_links].
  unfold add_link, get_sto. cbn [stos].
  assert (E : forall (l : list sto) k x d, (k < length l)%nat -> nth k (set_nth k x l) d = x).
  { intros l. induction l as [|h t IH]; intros k x d Hk; [cbn in Hk; lia|]. destruct k; cbn; [reflexivity|apply IH; cbn in Hk; lia]. }
  rewrite E by exact Hs. cbn [links freed cells]. unfold get_sto in Hf. rewrite Hf. repeat split; reflexivity.
Qed.

Lemma model_remove_link_is_generated : forall st s,
  freed (get_sto st s) = false -> (s < length (stos st))%nat -> 1 <= links (get_sto st s) ->
  let r := seq_run remove_link_steps (links (get_sto st s)) in
  let o := get_sto (remove_link st s) s in
  l_threw r = false /\ links o = l_links r /\ freed o = l_deleted r /\ cells o = cells (get_sto st s) /\
  deleted (remove_link st s) = (if l_deleted r then deleted st + 1 else deleted st) /\
  faults (remove_link st s) = faults st.
Proof.
  intros st s Hf Hs Hl. rewrite generated_remove_link.
  destruct (Z.eqb_spec (links (get_sto st s)) 0) as [H0|_]; [lia|]. cbn [l_threw l_links l_deleted].
  assert (E : forall (l : list sto) k x d, (k < length l)%nat -> nth k (set_nth k x l) d = x).
  { intros l. induction l as [|h t IH]; intros k x d Hk; [cbn in Hk; lia|]. destruct k; cbn; [reflexivity|apply IH; cbn in Hk; lia]. }
  assert (G : forall x b a c d f, get_sto (mkState (set_nth s x (stos st)) b a c d f) s = x).
  { intros. unfold get_sto. cbn [stos]. apply E. exact Hs. }
  unfold remove_link. rewrite Hf.
  destruct (links (get_sto st s) - 1 =? 0) eqn:Ez; rewrite G; cbn [links freed cells deleted faults]; repeat split; try reflexivity.
  apply Z.eqb_eq in Ez. lia.
Qed.

Lemma model_new_storage_is_generated : forall st n v,
  links (get_sto (fst (new_sto st n v)) (snd (new_sto st n v))) = initial_links.
Proof.
  intros st n v. unfold new_sto, get_sto. cbn [fst snd stos]. rewrite app_nth2 by lia.
  replace (length (stos st) - length (stos st))%nat with 0%nat by lia. reflexivity.
Qed.
