(* Extraction of the executable models to OCaml.  ExtrOcamlBasic only: its Extract Inductive
   directives for bool, option, unit, prod, list, sumbool, sumor.  Z, N, positive, nat stay as
   the extracted inductives; no Extract Constant. *)
Require Extraction.
From Coq Require Import ExtrOcamlBasic.
From Adept Require Import GapList.
Extraction "model.ml" GapList.init GapList.register1 GapList.registerN GapList.unregisterN GapList.new_recording GapList.step GapList.run.
