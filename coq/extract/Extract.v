(* Extraction of the executable models to OCaml.  ExtrOcamlBasic only: its Extract Inductive
   directives for bool, option, unit, prod, list, sumbool, sumor.  Z, N, positive, nat stay as
   the extracted inductives; no Extract Constant. *)
Require Extraction.
From Coq Require Import ExtrOcamlBasic.
From Adept Require Import Scalar GapList Tape Jacobian Buffers View Engines Interp Storage Assign VecSplit ExprDefs Expr Program ArrayStmt Protocol Matmul Minim MinimCG MinimLBFGS.
From AdeptGen Require Import Gen_Engines Gen_Ops.
Extraction "model.ml"
  GapList.init GapList.register1 GapList.registerN GapList.unregisterN GapList.new_recording GapList.step GapList.run
  Scalar.mkOps
  Tape.fwd_sweep Tape.rev_sweep Tape.unit_vec Tape.zero_vec Tape.upd Tape.drop_zeros Tape.dot
  Jacobian.jac_fwd_serial Jacobian.jac_rev_serial Jacobian.jac_auto Jacobian.jac_fwd_omp Jacobian.jac_rev_omp
  Buffers.bstep Buffers.brun Buffers.binit Buffers.safe Buffers.site_trace
  View.all_ix View.res View.addr View.apply_op View.apply_ops View.adm_op View.adm_ops View.den_ops View.parent View.slice_checked View.chk_slice View.lin_packed
  Gen_Engines.pack_offset Gen_Engines.index Gen_Engines.data_size Gen_Engines.stored Gen_Engines.transpose_engine Gen_Engines.transpose_swaps_LU
  Engines.dense Engines.read_row Engines.assign_row_targets Engines.diag_base Engines.diag_len Engines.sub_base
  Interp.interp1 Interp.interp2d Interp.interp3d Interp.decode
  Storage.sstep Storage.sinit Storage.read_cells Storage.get_arr Storage.get_sto
  Assign.assign Assign.assign_op Assign.assign_where Assign.fill Assign.eval Assign.reduce_all Assign.indices Assign.assign_spec
  Jacobian.apply_writes Jacobian.omp_blocks Jacobian.J_fwd Jacobian.J_rev
  VecSplit.stmt_counts VecSplit.reduce_counts VecSplit.align_off VecSplit.rows_ok
  Expr.value_and_gradient Expr.sem Expr.tangent Expr.n_active Expr.n_scratch Expr.n_arrays Expr.mkFOps Program.exec Program.dexec Program.instantiate Gen_Ops.unary_functions ArrayStmt.aexec ArrayStmt.denoted
  Protocol.pstep Protocol.pinit Protocol.obs_gradient Protocol.obs_gradient_error Protocol.obs_jacobian Protocol.obs_counts
  Matmul.adept_gemm_cell Matmul.adept_gemv_cell Matmul.zsum Matmul.gemm_statement Matmul.ops_val
  Minim.lm_bounded Minim.lm_unbounded Minim.status_code MinimCG.cg_bounded MinimCG.cg_unbounded MinimLBFGS.lbfgs_bounded MinimLBFGS.lbfgs_unbounded.
