theories/GapList.vo theories/GapList.glob theories/GapList.v.beautified theories/GapList.required_vo: theories/GapList.v 
theories/GapList.vio: theories/GapList.v 
theories/GapList.vos theories/GapList.vok theories/GapList.required_vos: theories/GapList.v 
theories/GapListProofs.vo theories/GapListProofs.glob theories/GapListProofs.v.beautified theories/GapListProofs.required_vo: theories/GapListProofs.v theories/GapList.vo
theories/GapListProofs.vio: theories/GapListProofs.v theories/GapList.vio
theories/GapListProofs.vos theories/GapListProofs.vok theories/GapListProofs.required_vos: theories/GapListProofs.v theories/GapList.vos
theories/Properties_C08.vo theories/Properties_C08.glob theories/Properties_C08.v.beautified theories/Properties_C08.required_vo: theories/Properties_C08.v theories/GapList.vo theories/GapListProofs.vo
theories/Properties_C08.vio: theories/Properties_C08.v theories/GapList.vio theories/GapListProofs.vio
theories/Properties_C08.vos theories/Properties_C08.vok theories/Properties_C08.required_vos: theories/Properties_C08.v theories/GapList.vos theories/GapListProofs.vos
