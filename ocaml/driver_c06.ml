(* C06 driver: same program language as harness/c06_views.cpp.  argv[1] = "checked" for the
   ADEPT_BOUNDS_CHECKING semantics.  Output:  rank dims | parent index of each element | parent after write-through
   Also prints "ADM 0" in front when the composition is not admissible (generator error). *)
open Model
open Zutil
exception Oob
let rec indices (ds : int list) : int list list =
  match ds with [] -> [[]] | d :: rest -> let r = indices rest in List.concat (List.map (fun i -> List.map (fun t -> i :: t) r) (range 0 d))
let () =
  let checked = Array.length Sys.argv > 1 && Sys.argv.(1) = "checked" in
  try while true do
    let line = input_line stdin in
    let toks = ref (split_ws line) in
    let next () = match !toks with x :: r -> toks := r; x | [] -> failwith "short" in
    let nexti () = int_of_string (next ()) in
    let pdims = ref [] in
    let ops = ref [] in
    while !toks <> [] do
      let t = next () in
      match t with
      | "P" -> let r = nexti () in pdims := List.map (fun _ -> nexti ()) (range 0 r)
      | "S" -> let n = nexti () in
        let args = List.map (fun _ -> match next () with
          | "s" -> IS (IAbs (z_of_int (nexti ())))
          | "e" -> IS (IEnd (z_of_int (nexti ())))
          | "r" -> let a = nexti () in let b = nexti () in let c = nexti () in IR (IAbs (z_of_int a), IAbs (z_of_int b), z_of_int c)
          | "R" -> let a = nexti () in let b = nexti () in let c = nexti () in IR (IEnd (z_of_int a), IEnd (z_of_int b), z_of_int c)
          | _ -> all_ix) (range 0 n) in
        ops := OSlice args :: !ops
      | "I" -> ops := OIndex0 (IAbs (z_of_int (nexti ()))) :: !ops
      | "J" -> ops := OIndex0 (IEnd (z_of_int (nexti ()))) :: !ops
      | "T" -> ops := OTranspose :: !ops
      | "M" -> let n = nexti () in ops := OPermute (List.map (fun _ -> nat_of_int (nexti ())) (range 0 n)) :: !ops
      | "G" -> ops := ODiag (z_of_int (nexti ())) :: !ops
      | "U" -> let a = nexti () in let b = nexti () in ops := OSubDiag (z_of_int a, z_of_int b) :: !ops
      | "H" -> let n = nexti () in ops := OReshape (List.map (fun _ -> z_of_int (nexti ())) (range 0 n)) :: !ops
      | "L" -> ops := OSoftLink :: !ops
      | "B" -> let r = (List.length !pdims) in ignore r; failwith "B handled by generator as S"
      | _ -> failwith ("token " ^ t)
    done;
    let ops = List.rev !ops in
    let p = parent (List.map z_of_int !pdims) in
    let psize = List.fold_left ( * ) 1 !pdims in
    (try
      (* bounds-checked build: every slicing step tests scalar indices and range end-points *)
      let v = List.fold_left (fun v o ->
        (if checked then match o with
          | OSlice l -> if not (chk_slice l v.dims) then raise Oob
          | OIndex0 i -> (match v.dims with d :: _ -> let k = int_of_z (res d i) in if k < 0 || k >= int_of_z d then raise Oob | [] -> ())
          | _ -> ());
        (match o with
          | OSubDiag (ib, ie) -> (match v.dims with d :: _ -> let a = int_of_z ib and b = int_of_z ie in if a < 0 || a > b || b >= int_of_z d then raise Oob | [] -> ())
          | _ -> ());
        apply_op v o) p ops in
      let adm = adm_ops p ops in
      let ds = List.map int_of_z v.dims in
      let idx = indices ds in
      let addrs = List.map (fun j -> int_of_z (addr v (List.map z_of_int j))) idx in
      let mem = Array.init psize (fun k -> k) in
      List.iteri (fun k a -> if a >= 0 && a < psize then mem.(a) <- 1000 + k) addrs;
      Printf.printf "%s%d%s |%s |%s\n" (if adm then "" else "ADM0 ") (List.length ds)
        (String.concat "" (List.map (fun d -> " " ^ string_of_int d) ds))
        (String.concat "" (List.map (fun a -> " " ^ string_of_int a) addrs))
        (String.concat "" (Array.to_list (Array.map (fun a -> " " ^ string_of_int a) mem)))
    with Oob -> print_endline "EXC index_out_of_bounds")
  done with End_of_file -> ()
