(* C09 driver: replays the *requests* of a buffer event trace on the Buffers.v model and prints the
   full trace the model predicts (with growth events G/g and violations V) and the final state.
   input line:  n_ops cap_ops n_st cap_st | tokens (C<n> P I<num*1000+stride> L R<n> ; G g V are ignored)
   output:      trace | n_ops cap_ops n_st cap_st | violations *)
open Model
open Zutil
let () =
  try while true do
    let line = input_line stdin in
    match String.split_on_char '|' line with
    | st :: tr :: _ ->
      let s = List.map int_of_string (split_ws st) in
      let (n0,c0,m0,k0) = match s with [a;b;c;d] -> (a,b,c,d) | _ -> failwith "state" in
      let b = ref { n_ops = z_of_int n0; cap_ops = z_of_int c0; n_st = z_of_int m0; cap_st = z_of_int k0; ops_rec = []; st_rec = [] } in
      let buf = Buffer.create 256 in
      let viol = ref 0 in
      List.iter (fun tok ->
        let arg () = int_of_string (String.sub tok 1 (String.length tok - 1)) in
        let e = match tok.[0] with
          | 'C' -> Some (ECheck (z_of_int (arg ())))
          | 'P' -> Some (EPush Z0)
          | 'I' -> let a = arg () in Some (EPushIdx (z_of_int (a / 1000), z_of_int (a mod 1000), Z0))
          | 'L' -> Some (ELhs Z0)
          | 'R' -> Some (ELhsRange (z_of_int (arg ()), Z0))
          | _ -> None in
        match e with
        | None -> ()
        | Some e ->
          let (b', v) = Model.bstep !b e in
          let co = int_of_z (!b).cap_ops and co' = int_of_z b'.cap_ops in
          let cs = int_of_z (!b).cap_st and cs' = int_of_z b'.cap_st in
          (* the C++ emits the request, then the growth (if any), then V *)
          (match tok.[0] with
           | 'L' | 'R' -> if cs' <> cs then Buffer.add_string buf (Printf.sprintf "g%d " cs');
                          Buffer.add_string buf tok; Buffer.add_char buf ' '
           | _ -> Buffer.add_string buf tok; Buffer.add_char buf ' ';
                  if co' <> co then Buffer.add_string buf (Printf.sprintf "G%d " co'));
          if v then begin incr viol; Buffer.add_string buf "V " end;
          b := b') (split_ws tr);
      let evs = List.concat (List.map (fun tok ->
        let arg () = int_of_string (String.sub tok 1 (String.length tok - 1)) in
        match tok.[0] with
          | 'C' -> [ECheck (z_of_int (arg ()))]
          | 'P' -> [EPush Z0]
          | 'I' -> let a = arg () in [EPushIdx (z_of_int (a / 1000), z_of_int (a mod 1000), Z0)]
          | 'L' -> [ELhs Z0]
          | 'R' -> [ELhsRange (z_of_int (arg ()), Z0)]
          | _ -> []) (split_ws tr)) in
      let sf = if safe Z0 evs then 1 else 0 in
      Printf.printf "%s| %d %d %d %d | %d | safe=%d\n" (Buffer.contents buf) (int_of_z (!b).n_ops) (int_of_z (!b).cap_ops) (int_of_z (!b).n_st) (int_of_z (!b).cap_st) !viol sf
    | _ -> print_endline "?"
  done with End_of_file -> ()
