(* conversions between OCaml int and the extracted binary integers; shared by all drivers *)
open Model
let rec pos_of_int (n:int) : positive =
  if n = 1 then XH else if n land 1 = 0 then XO (pos_of_int (n lsr 1)) else XI (pos_of_int (n lsr 1))
let z_of_int (n:int) : z = if n = 0 then Z0 else if n > 0 then Zpos (pos_of_int n) else Zneg (pos_of_int (-n))
let rec int_of_pos (p:positive) : int = match p with XH -> 1 | XO q -> 2 * int_of_pos q | XI q -> 2 * int_of_pos q + 1
let int_of_z (x:z) : int = match x with Z0 -> 0 | Zpos p -> int_of_pos p | Zneg p -> - (int_of_pos p)
let rec nat_of_int (n:int) : nat = if n <= 0 then O else S (nat_of_int (n-1))
let rec int_of_nat (n:nat) : int = match n with O -> 0 | S k -> 1 + int_of_nat k
let split_ws (s:string) : string list = List.filter (fun x -> x <> "") (String.split_on_char ' ' (String.trim s))
(* the float instance of the abstract scalar record: OCaml's IEEE double operations *)
let float_ops : float ops =
  { o0 = 0.0; o1 = 1.0; oadd = ( +. ); osub = ( -. ); omul = ( *. ); odiv = ( /. ); oneg = (fun x -> -. x);
    oeqb = (fun a b -> a = b); oltb = (fun a b -> a < b); oleb = (fun a b -> a <= b) }
let fstr (x:float) : string = Printf.sprintf "%.17g" x
let rec range a b = if a >= b then [] else a :: range (a+1) b
