(* C18 / C19 driver: runs the extracted Levenberg / Levenberg-Marquardt model (Minim.v) on OCaml doubles.
   Input, one run per line, as printed by harness/c18_minimizer.cpp:
     P algo bounded kind n maxit thr maxstep ensure | A row-major | b | d | lo | hi | x0
   Output:
     R status iterations samples | reported cost, start cost, gradient norm | x | smallest relative margin of a decision | E states ;
   The user's functions are the same data-defined problems as in the harness (q quadratic, l quadratic minus logs,
   r Rosenbrock chain); solve is Gaussian elimination with partial pivoting (LAPACK is an oracle of the model). *)
open Model
open Zutil

let margin = ref infinity
let note a b = if a <> b && Float.is_finite a && Float.is_finite b then begin
    let m = Float.abs (a -. b) /. Float.max (Float.max (Float.abs a) (Float.abs b)) 1e-300 in
    if m < !margin then margin := m end
(* perturbation id (argv 1): 0 = none.  k > 0: the result of every multiplication and division (and every component returned by
   solve, and the norm of a search direction) is multiplied by 1 + j*2^-53 with j in {-1, 0, 0, 0, 1} drawn from a generator
   seeded by k: a different rounding of the same computation.  LAPACK / the vectorized library and this model differ in the
   last bits; a step that lands exactly on a bound in one and one ulp inside it in the other is a legitimate difference,
   which the check recognises by finding a rounding under which the model reproduces the implementation. *)
let pert = if Array.length Sys.argv > 1 then int_of_string Sys.argv.(1) else 0
let pstate = ref 0
let pnext () = pstate := (!pstate * 1103515245 + 12345) land 0x3fffffff;
  (match (!pstate lsr 12) mod 5 with 0 -> -1.0 | 4 -> 1.0 | _ -> 0.0) *. 1.1102230246251565e-16
(* ids 1..20: light (only solve and the direction norm are perturbed); ids above 20: heavy (also every multiplication and division) *)
let rnd v = if pert <= 20 then v else v *. (1.0 +. pnext ())
let ops : float ops =
  { o0 = 0.0; o1 = 1.0; oadd = ( +. ); osub = ( -. ); omul = (fun a b -> rnd (a *. b)); odiv = (fun a b -> rnd (a /. b)); oneg = (fun x -> -. x);
    oeqb = (fun a b -> a = b); oltb = (fun a b -> note a b; a < b); oleb = (fun a b -> note a b; a <= b) }

let floats s = List.map float_of_string (split_ws s)
(* number of evaluations of the cost function so far, and the values of that counter at which the linear solver returned a
   component that is zero or below 1e-9 of its largest component: the SIGN of such a component (it decides whether a
   variable at a bound is released) is rounding noise, and may differ between two solvers *)
let ncost = ref 0
let ties : int list ref = ref []
let solve (m : float list list) (g : float list) : float list =
  let n = List.length g in
  let a = Array.of_list (List.map Array.of_list m) and b = Array.of_list g in
  (try
    for c = 0 to n - 1 do
      let p = ref c in
      for r = c + 1 to n - 1 do if Float.abs a.(r).(c) > Float.abs a.(!p).(c) then p := r done;
      let t = a.(c) in a.(c) <- a.(!p); a.(!p) <- t; let t = b.(c) in b.(c) <- b.(!p); b.(!p) <- t;
      for r = c + 1 to n - 1 do
        let f = a.(r).(c) /. a.(c).(c) in
        for k = c to n - 1 do a.(r).(k) <- a.(r).(k) -. f *. a.(c).(k) done;
        b.(r) <- b.(r) -. f *. b.(c)
      done
    done;
    for c = n - 1 downto 0 do
      let s = ref b.(c) in
      for k = c + 1 to n - 1 do s := !s -. a.(c).(k) *. b.(k) done;
      b.(c) <- !s /. a.(c).(c)
    done
  with _ -> ());
  let mx0 = Array.fold_left (fun a v -> Float.max a (Float.abs v)) 0.0 b in
  if mx0 > 0.0 && Array.exists (fun v -> Float.abs v <= 1e-9 *. mx0) b then ties := !ncost :: !ties;
  if pert = 0 then Array.to_list b
  else if pert <= 20 then List.map (fun v -> v *. (1.0 +. pnext ())) (Array.to_list b)
  else begin
    (* heavy: noise of one ulp of the LARGEST component on every component, so that a component that is zero up to rounding
       (its sign decides whether a variable is released) can come out with either sign, as it does between two solvers *)
    let mx = Array.fold_left (fun a v -> Float.max a (Float.abs v)) 0.0 b in
    let amp = float_of_int (1 lsl (pert mod 10)) in      (* 1 .. 512 ulp of the largest component: the error of an elimination grows with the condition number *)
    List.map (fun v -> v +. mx *. amp *. pnext ()) (Array.to_list b)
  end

let () =
  try while true do
    let line = input_line stdin in
    (match String.split_on_char '|' line with
     | hd :: sa :: sb :: sd :: slo :: shi :: sx :: _ ->
       (match split_ws hd with
        | ["P"; algo; bounded; kind; n; maxit; thr; maxstep; ens; mls] ->
          let algo = int_of_string algo and bounded = bounded = "1" and n = int_of_string n and maxit = int_of_string maxit in
          let av = Array.of_list (floats sa) and b = Array.of_list (floats sb) and d = Array.of_list (floats sd) in
          let lo = floats slo and hi = floats shi and x0 = floats sx in
          let am i j = av.(i * n + j) in
          let cost0 (xl : float list) : float =
            let x = Array.of_list xl in
            let c = ref 0.0 in
            if kind = "q" || kind = "l" then
              for i = 0 to n - 1 do let s = ref 0.0 in for j = 0 to n - 1 do s := !s +. am i j *. x.(j) done; c := !c +. 0.5 *. x.(i) *. !s -. b.(i) *. x.(i) done;
            if kind = "l" then for i = 0 to n - 1 do c := !c -. log (x.(i) -. d.(i)) done;
            if kind = "r" then begin
              for i = 0 to n - 2 do c := !c +. 100.0 *. (x.(i+1) -. x.(i) *. x.(i)) ** 2.0 +. (1.0 -. x.(i)) ** 2.0 done;
              if n = 1 then c := (1.0 -. x.(0)) ** 2.0 end;
            !c in
          (* heavy perturbation: the cost function itself by one ulp (std::pow / log and their OCaml counterparts, summation order) *)
          let cost xl = incr ncost; let c = cost0 xl in if pert <= 20 then c else c *. (1.0 +. pnext ()) in
          let grad0 (xl : float list) : float list =
            let x = Array.of_list xl in
            let g = Array.make n 0.0 in
            if kind = "q" || kind = "l" then
              for i = 0 to n - 1 do let s = ref 0.0 in for j = 0 to n - 1 do s := !s +. am i j *. x.(j) done; g.(i) <- !s -. b.(i) done;
            if kind = "l" then for i = 0 to n - 1 do g.(i) <- g.(i) -. 1.0 /. (x.(i) -. d.(i)) done;
            if kind = "r" then begin
              if n = 1 then g.(0) <- -2.0 *. (1.0 -. x.(0));
              for i = 0 to n - 2 do
                let t = x.(i+1) -. x.(i) *. x.(i) in
                g.(i) <- g.(i) +. (-400.0 *. x.(i) *. t -. 2.0 *. (1.0 -. x.(i))); g.(i+1) <- g.(i+1) +. 200.0 *. t done end;
            Array.to_list g in
          let hess (xl : float list) : float list list =
            let x = Array.of_list xl in
            let h = Array.make_matrix n n 0.0 in
            if kind = "q" || kind = "l" then for i = 0 to n - 1 do for j = 0 to i do h.(i).(j) <- am i j done done;
            if kind = "l" then for i = 0 to n - 1 do h.(i).(i) <- h.(i).(i) +. 1.0 /. ((x.(i) -. d.(i)) *. (x.(i) -. d.(i))) done;
            if kind = "r" then begin
              if n = 1 then h.(0).(0) <- 2.0;
              for i = 0 to n - 2 do
                h.(i).(i) <- h.(i).(i) +. (1200.0 *. x.(i) *. x.(i) -. 400.0 *. x.(i+1) +. 2.0);
                h.(i+1).(i) <- h.(i+1).(i) +. (-400.0 *. x.(i)); h.(i+1).(i+1) <- h.(i+1).(i+1) +. 200.0 done end;
            for i = 0 to n - 1 do for j = i + 1 to n - 1 do h.(i).(j) <- h.(j).(i) done done;
            Array.to_list (Array.map Array.to_list h) in
          (* heavy perturbation: a gradient component is a sum of terms of the size of (largest Hessian entry) x |x| that cancel near a
             stationary point; its rounding error is a few ulp of THAT size, whatever the size of the component itself *)
          let grad xl =
            let g = grad0 xl in
            if pert <= 20 then g else begin
              let hs = List.fold_left (fun a row -> List.fold_left (fun a v -> Float.max a (Float.abs v)) a row) 1.0 (hess xl) in
              let xs = List.fold_left (fun a v -> Float.max a (Float.abs v)) 1.0 xl in
              let amp = float_of_int (1 lsl (pert mod 10)) in
              List.map (fun v -> v +. hs *. xs *. amp *. pnext ()) g end in
          let norm2 v = sqrt (List.fold_left (fun a x -> a +. x *. x) 0.0 v) in
          let isfinite (x : float) = Float.is_finite x in
          let ofnat k = float_of_int (int_of_nat k) in
          let s = { max_it = z_of_int maxit; max_step = float_of_string maxstep; thr = float_of_string thr; ensure = z_of_int (int_of_string ens);
                    d_min = 1.0 /. 128.0; d_max = 100000.0; d_mult = 2.0; d_div = 5.0; d_start = 0.0; d_restart = 0.25 } in
          margin := infinity; pstate := pert * 7919 + 1; ncost := 0; ties := [];
          let fo = nat_of_int (maxit + 2) and fi = nat_of_int 64 in
          let additive = (algo = 3) in
          let r =
            if algo >= 3 then
              (if bounded then lm_bounded ops cost grad hess solve norm2 isfinite ofnat fo fi s additive lo hi x0 (-1.0) infinity
               else lm_unbounded ops cost grad hess solve norm2 isfinite ofnat fo fi s additive x0 (-1.0))
            else begin
              (* conjugate gradient (1 Polak-Ribiere, 2 Fletcher-Reeves): no linear solver; the rounding perturbation, if any, is
                 applied to the norm of the search direction *)
              let norm2p v = let r = norm2 v in if pert = 0 then r else r *. (1.0 +. pnext ()) in
              let k = { c1_1 = 1.1; c10 = 10.0; c5 = 5.0; c2 = 2.0; c3 = 3.0; c0_95 = 0.95; c0_05 = 0.05; cbig = max_float; ceps4 = 4.0 *. epsilon_float } in
              let gs = { g_max_it = z_of_int maxit; g_max_step = float_of_string maxstep; g_thr = float_of_string thr; g_ensure = z_of_int (int_of_string ens);
                         g_max_ls = nat_of_int (int_of_string mls); g_armijo = 1.0e-4; g_curv = 0.1 } in
              if algo = 0 then
                let ls = { lb_cg = gs; lb_curv = 0.9; lb_n_states = z_of_int (min n 6); lb_tiny = 10.0 *. min_float } in
                if bounded then lbfgs_bounded ops cost grad norm2p sqrt isfinite (fun z -> float_of_int (int_of_z z)) fo ls k lo hi x0 (-1.0) infinity
                else lbfgs_unbounded ops cost grad norm2p sqrt isfinite (fun z -> float_of_int (int_of_z z)) fo ls k x0 (-1.0) infinity
              else if bounded then cg_bounded ops cost grad norm2p sqrt isfinite fo gs k (algo = 2) lo hi x0 (-1.0) infinity
              else cg_unbounded ops cost grad norm2p sqrt isfinite fo gs k (algo = 2) x0 (-1.0) infinity
            end in
          let states = List.filter_map (function EvCost x -> Some x | EvCostGradHess x -> Some x | EvProgress _ -> None) r.r_log in
          Printf.printf "R %d %d %d | %s %s %s | %s | %.3e | E%s | T%s\n" (int_of_z (status_code r.r_status)) (int_of_z r.r_iter) (int_of_z r.r_samples)
            (fstr r.r_cost) (fstr r.r_start_cost) (fstr r.r_gnorm) (String.concat " " (List.map fstr r.r_x)) !margin
            (String.concat "" (List.map (fun x -> " " ^ String.concat " " (List.map fstr x) ^ " ;") states))
            (String.concat "" (List.map (fun c -> " " ^ string_of_int c) (List.rev !ties)))
        | _ -> print_endline "?")
     | _ -> print_endline "?")
  done with End_of_file -> ()
