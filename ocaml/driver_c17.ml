(* C17 driver: recomputes every section of harness/c17_special.cpp from the GENERATED engine functions
   (Gen_Engines) and Engines.v.  Input lines: "<engine> <L> <U> <n>". *)
open Model
open Zutil
let engine_of = function
  | "SqR" -> SqR | "SqC" -> SqC | "BandR" -> BandR | "BandC" -> BandC | "SymLo" -> SymLo | "SymUp" -> SymUp
  | "LowR" -> LowR | "LowC" -> LowC | "UpR" -> UpR | "UpC" -> UpC | s -> failwith s
let () =
  try while true do
    let line = input_line stdin in
    match split_ws line with
    | [en; ls; us; ns] ->
      let kind = (match en with "BandR" | "BandC" -> 1 | "SymLo" | "SymUp" -> 2 | "LowR" | "LowC" -> 3 | "UpR" | "UpC" -> 4 | _ -> 0) in
      let e = engine_of en and l = int_of_string ls and u = int_of_string us and n = int_of_string ns in
      let zl = z_of_int l and zu = z_of_int u and zn = z_of_int n in
      let off = int_of_z (pack_offset e zl zu zn) in
      let zoff = z_of_int off in
      let size = max 1 (int_of_z (data_size e zl zu zn zoff)) in
      let idx e i j = int_of_z (index e zl zu (z_of_int i) (z_of_int j) zoff) in
      let st i j = stored e zl zu (z_of_int i) (z_of_int j) in
      let mk () = Array.make (size + 64) 0 in
      let get (a : int array) (p : z) = let k = int_of_z p in if k >= 0 && k < Array.length a then a.(k) else -99999 in
      let data = mk () in
      for i = 0 to n - 1 do for j = 0 to n - 1 do
        if st i j && not (kind = 2 && j > i) then data.(idx e i j) <- 100 + 10 * i + j done done;
      let buf = Buffer.create 1024 in
      let sec name vals = Buffer.add_string buf name; List.iter (fun v -> Buffer.add_string buf (" " ^ string_of_int v)) vals; Buffer.add_string buf " | " in
      let tr e (l', u') = transpose_engine e l' u' in
      let lu e = if transpose_swaps_LU e then (zu, zl) else (zl, zu) in
      (* rows read through the expression traversal, for engine e' with band parameters (l',u'), data accessor d, dimension m *)
      let rows e' (l', u') d m = List.concat (List.map (fun i -> read_row 0 e' l' u' d (z_of_int m) zoff (z_of_int i)) (range 0 m)) in
      Buffer.add_string buf (Printf.sprintf "%s %d %d %d | " en l u n);
      sec "D" (List.concat (List.map (fun i -> List.map (fun j -> dense 0 e zl zu (get data) zoff (z_of_int i) (z_of_int j)) (range 0 n)) (range 0 n)));
      let m = rows e (zl, zu) (get data) n in
      sec "M" m;
      let e1 = tr e (zl, zu) in let lu1 = lu e in
      let t = rows e1 lu1 (get data) n in
      sec "T" t;
      let e2 = tr e1 lu1 in let lu2 = if transpose_swaps_LU e1 then (snd lu1, fst lu1) else lu1 in
      sec "TT" (rows e2 lu2 (get data) n);
      let diag pre e' (l', u') kindstored =
        List.iter (fun k ->
          if kindstored k then begin
            let len = int_of_z (diag_len zn (z_of_int k)) in
            let b = diag_base e' l' u' zn zoff (z_of_int k) in
            sec (Printf.sprintf "%s%d" pre k) (List.map (fun t -> get data (z_of_int (int_of_z b + t * (off + 1)))) (range 0 len))
          end) (range (-(n-1)) n) in
      let kstored i j = (match kind with 1 -> j - i <= u && j - i >= -l | 3 -> i >= j | 4 -> i <= j | _ -> true) in
      diag "TG" e1 lu1 (fun k -> (if k >= 0 then kstored k 0 else kstored 0 (-k)) && not (kind = 3 && k < 0) && not (kind = 4 && k > 0));
      let a = n / 3 and b = n - 1 - (if n > 3 then 1 else 0) in
      let shifted = (fun p -> get data (z_of_int (int_of_z (sub_base zoff (z_of_int a)) + int_of_z p))) in
      if n >= 2 then sec (Printf.sprintf "TU%d_%d" a b) (rows e1 lu1 shifted (b - a + 1));
      diag "G" e (zl, zu) (fun k -> (if k >= 0 then kstored 0 k else kstored (-k) 0) && not (kind = 3 && k > 0) && not (kind = 4 && k < 0));
      if n >= 2 then sec (Printf.sprintf "U%d_%d" a b) (rows e (zl, zu) shifted (b - a + 1));
      if n >= 2 then begin
        let mm = b - a + 1 in
        let sb = int_of_z (sub_base zoff (z_of_int a)) in
        let okk k = (if k >= 0 then kstored 0 k else kstored (-k) 0) && not (kind = 3 && k > 0) && not (kind = 4 && k < 0) in
        let kw = ref 0 and have = ref false in
        List.iter (fun k ->
          if okk k then begin
            if not !have || (k <> 0 && (!kw = 0 || (k < 0 && k > !kw))) then (kw := k; have := true);
            let len = int_of_z (diag_len (z_of_int mm) (z_of_int k)) in
            let bs = diag_base e zl zu (z_of_int mm) zoff (z_of_int k) in
            sec (Printf.sprintf "UG%d" k) (List.map (fun t -> get data (z_of_int (sb + int_of_z bs + t * (off + 1)))) (range 0 len))
          end) (range (-(mm-1)) mm);
        let d4 = Array.copy data in
        let len = int_of_z (diag_len (z_of_int mm) (z_of_int !kw)) in
        let bs = diag_base e zl zu (z_of_int mm) zoff (z_of_int !kw) in
        List.iter (fun t -> let p = sb + int_of_z bs + t * (off + 1) in if p >= 0 && p < Array.length d4 then d4.(p) <- -7) (range 0 len);
        sec (Printf.sprintf "UW%d" !kw) (rows e (zl, zu) (get d4) n);
        let d5 = Array.copy data in
        List.iter (fun i -> List.iter (fun (j, loc) -> let k = sb + int_of_z loc in if k >= 0 && k < Array.length d5 then d5.(k) <- 2000 + 10 * i + int_of_z j)
          (assign_row_targets e zl zu (z_of_int mm) zoff (z_of_int i))) (range 0 mm);
        sec "UA" (rows e (zl, zu) (get d5) n)
      end;
      sec "E" (List.map (fun x -> 3 * x) m);
      sec "F" (List.map2 ( + ) t m);
      let d2 = mk () in
      List.iter (fun i -> List.iter (fun (j, loc) -> let k = int_of_z loc in if k >= 0 && k < Array.length d2 then d2.(k) <- 1000 + 10 * i + int_of_z j)
        (assign_row_targets e zl zu zn zoff (z_of_int i))) (range 0 n);
      sec "A" (rows e (zl, zu) (get d2) n);
      let d3 = Array.copy data in
      let wi = n - 1 in
      let wj = if kind = 4 then n - 1 else if n > 1 && kstored (n-1) (n-2) then n - 2 else n - 1 in
      d3.(idx e wi wj) <- -5;
      sec (Printf.sprintf "W%d_%d" wi wj) (rows e (zl, zu) (get d3) n);
      print_endline (Buffer.contents buf)
    | _ -> print_endline "?"
  done with End_of_file -> ()
