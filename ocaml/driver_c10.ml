(* C10 driver: the same history tokens as harness/c10_protocol.cpp, run on the extracted Protocol.pstep *)
open Model
open Zutil
let () =
  try while true do
    let line = input_line stdin in
    let toks = Array.of_list (split_ws line) in
    let n = Array.length toks in
    let buf = Buffer.create 256 in
    if n > 0 then begin
      let ng = int_of_string toks.(0) in
      let st = ref (pstep float_ops (pinit float_ops) (ORegister (nat_of_int ng))) in
      st := pstep float_ops !st (ONewRecording (nat_of_int ng));
      let pos = ref 1 in
      let next () = let t = toks.(!pos) in incr pos; t in
      let nexti () = int_of_string (next ()) in
      let nobj = ref ng in
      let kind = function ENotInit -> "E:n " | ERange -> "E:r " | EWrongGradient -> "E:w " in
      let step o = let e0 = List.length (!st).errs in st := pstep float_ops !st o;
        if List.length (!st).errs > e0 then Buffer.add_string buf (kind (List.hd (!st).errs)) in
      while !pos < n do
        (match next () with
         | "S" -> let lhs = nexti () in let k = nexti () in
           if k = 0 then step (OAddDep (nat_of_int lhs, [(0.0, nat_of_int 0)]));
           for j = 0 to k - 1 do
             let q = nexti () in let idx = nexti () in
             let op = [(float_of_int q /. 4.0, nat_of_int idx)] in
             if j = 0 then step (OAddDep (nat_of_int lhs, op)) else step (OAppendDep (nat_of_int lhs, op))
           done
         | "N" -> step (ONewRecording (nat_of_int !nobj))
         | "A" -> incr nobj; step (ORegister (nat_of_int !nobj)); step (ORecord { lhs = nat_of_int (!nobj - 1); rhs = [] })
         | "X" -> if !nobj > ng then decr nobj   (* ~Active of the top index: only i_gradient_ changes, seen by the next new_recording *)
         | "W" -> let lhs = nexti () in let q = nexti () in let idx = nexti () in step (OAppendDep (nat_of_int lhs, [(float_of_int q /. 4.0, nat_of_int idx)]))
         | "G" -> let i = nexti () in let q = nexti () in step (OSeed (nat_of_int i, float_of_int q /. 4.0))
         | "F" -> step OForward | "R" -> step OReverse | "C" -> step OClearGradients
         | "I" -> step (OIndependent (nat_of_int (nexti ()))) | "D" -> step (ODependent (nat_of_int (nexti ())))
         | "CI" -> step OClearIndependents | "CD" -> step OClearDependents
         | "P" -> step OPause | "U" -> step OContinue
         | "O" -> let i = nexti () in
           (match obs_gradient_error !st (nat_of_int i) with
            | Some k -> Buffer.add_string buf (kind k)
            | None -> (match obs_gradient !st (nat_of_int i) with Some v -> Buffer.add_string buf (fstr v ^ " ") | None -> Buffer.add_string buf "E:? "))
         | "K" -> let (a, b) = obs_counts !st in Buffer.add_string buf (Printf.sprintf "k%d/%d " (int_of_nat a) (int_of_nat b))
         | "J" ->
           if (!st).indep = [] || (!st).dep = [] then Buffer.add_string buf "E:d "
           else begin
             let j = obs_jacobian float_ops !st in
             Buffer.add_string buf ("[" ^ String.concat "; " (List.map (fun row -> String.concat " " (List.map fstr row)) j) ^ "] ")
           end
         | t -> failwith ("token " ^ t))
      done
    end;
    print_endline (Buffer.contents buf)
  done with End_of_file -> ()
