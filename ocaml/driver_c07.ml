(* C07 driver: replays a history on the Storage.v model; same output format as harness/c07_storage.cpp *)
open Model
open Zutil
let ns = 6 and nb = 2 and bl = 4
let () =
  try while true do
    let line = input_line stdin in
    let toks = ref (split_ws line) in
    let next () = match !toks with x :: r -> toks := r; x | [] -> failwith "short" in
    let ni () = int_of_string (next ()) in
    let nn () = nat_of_int (ni ()) in
    let bufs0 = List.map (fun k -> List.map (fun j -> z_of_int (900 + 10 * k + j)) (range 0 bl)) (range 0 nb) in
    let st = ref (Model.sinit (nat_of_int ns) bufs0) in
    let buf = Buffer.create 1024 in
    let show () =
      let s = !st in
      Buffer.add_string buf (Printf.sprintf "%d ;" (int_of_z s.created - int_of_z s.deleted));
      List.iter (fun i ->
        let a = get_arr s (nat_of_int i) in
        if not a.live then Buffer.add_string buf " -"
        else begin
          let nl = match a.plc with PSto t -> if a.owns then int_of_z (get_sto s t).links else 0 | _ -> 0 in
          let vals = read_cells s a in
          Buffer.add_string buf (Printf.sprintf " %d:%d:%s" (int_of_nat a.len) nl (String.concat "," (List.map (fun v -> string_of_int (int_of_z v)) vals)))
        end) (range 0 ns);
      Buffer.add_string buf " ;";
      List.iter (fun b -> Buffer.add_string buf (" " ^ String.concat "," (List.map (fun v -> string_of_int (int_of_z v)) b))) s.bufs;
      Buffer.add_string buf " | " in
    while !toks <> [] do
      let o = match next () with
        | "N" -> let i = nn () in let n = nn () in let v = ni () in ANew (i, n, z_of_int v)
        | "E" -> AEmpty (nn ())
        | "C" -> let i = nn () in let j = nn () in ACopy (i, j)
        | "S" -> let i = nn () in let j = nn () in let b = nn () in let n = nn () in ASlice (i, j, b, n)
        | "F" -> let i = nn () in let j = nn () in ASoft (i, j)
        | "X" -> let i = nn () in let k = nn () in AExt (i, k)
        | "L" -> let i = nn () in let j = nn () in ALink (i, j)
        | "A" -> let i = nn () in let j = nn () in AAssign (i, j)
        | "MO" -> let i = nn () in let n = nn () in let v = ni () in AMoveOwn (i, n, z_of_int v)
        | "MX" -> let i = nn () in let k = nn () in AMoveExt (i, k)
        | "MS" -> let i = nn () in let j = nn () in let b = nn () in let n = nn () in AMoveSlice (i, j, b, n)
        | "R" -> let i = nn () in let n = nn () in AResize (i, n)
        | "CL" -> AClear (nn ())
        | "D" -> ADestroy (nn ())
        | "W" -> let i = nn () in let k = nn () in let v = ni () in AWrite (i, k, z_of_int v)
        | t -> failwith t in
      st := Model.sstep !st o;
      show ()
    done;
    Buffer.add_string buf (Printf.sprintf "END faults=%d" (int_of_z (!st).faults));
    print_endline (Buffer.contents buf)
  done with End_of_file -> ()
