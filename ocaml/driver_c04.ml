(* C04 driver: evaluates one array statement (s-expression, see vlib/arraygen.py) with the extracted
   Assign.v model.  argv: the parents' real strides are given on the first input line:
     "LAYOUT P0 s.. ; P1 s s ; ..." then one statement per line "<id> <sexpr>".
   Output: "<id> [R v..] | P0 v.. | P1 v.. | ..." in logical element order. *)
open Model
open Zutil
type sx = A of string | L of sx list
let parse (s : string) : sx =
  let n = String.length s in
  let pos = ref 0 in
  let rec skip () = if !pos < n && (s.[!pos] = ' ' || s.[!pos] = '\t') then (incr pos; skip ()) in
  let rec item () =
    skip ();
    if s.[!pos] = '(' then begin
      incr pos; let l = ref [] in
      skip ();
      while s.[!pos] <> ')' do l := item () :: !l; skip () done;
      incr pos; L (List.rev !l) end
    else begin
      let st = !pos in
      while !pos < n && s.[!pos] <> ' ' && s.[!pos] <> ')' && s.[!pos] <> '(' do incr pos done;
      A (String.sub s st (!pos - st)) end in
  item ()
let ints l = List.map (function A x -> int_of_string x | _ -> failwith "int") l
let names = [| "P0"; "P1"; "P2"; "Q0"; "Q1"; "P3"; "Q2" |]
let pdims = [| [13]; [5;6]; [2;3;4]; [13]; [5;6]; [4;17]; [3;2;4] |]
let binop_of = function "BAdd" -> BAdd | "BSub" -> BSub | "BMul" -> BMul | "BMax" -> BMax | "BMin" -> BMin | "BGt" -> BGt | s -> failwith s
let rec pv = function
  | L [A "v"; A p; A b; L d; L s] -> { par = nat_of_int (int_of_string p); vw = { base = z_of_int (int_of_string b); dims = List.map z_of_int (ints d); strides = List.map z_of_int (ints s) } }
  | _ -> failwith "view"
let rec ex = function
  | L (A "v" :: _) as v -> ELeaf (pv v)
  | L [A "s"; A c] -> EScalar (z_of_int (int_of_string c))
  | L [A "neg"; e] -> ENeg (ex e)
  | L [A "bin"; A o; a; b] -> EBin (binop_of o, ex a, ex b)
  | L [A "noalias"; e] -> ENoAlias (ex e)
  | L [A "spread"; A d; e] -> ESpread (nat_of_int (int_of_string d), ex e)
  | L [A "outer"; a; b] -> EOuter (ex a, ex b)
  | _ -> failwith "expr"
let rec all_idx = function [] -> [[]] | d :: r -> let t = all_idx r in List.concat (List.map (fun i -> List.map (fun x -> i :: x) t) (range 0 d))
let () =
  let layout = Array.make 7 [] in
  let first = input_line stdin in
  (match String.split_on_char ';' first with
   | parts -> List.iteri (fun k p -> match split_ws p with
       | _ :: rest when k < 7 -> layout.(k) <- List.map int_of_string (if k = 0 then List.tl rest else rest)
       | _ -> ()) parts);
  (* initial memory: logical element number q of parent k holds ((q*3 + k*5) mod 7) - 2 at its real offset *)
  let offset_of k cell = List.fold_left2 (fun acc i s -> acc + i * s) 0 cell layout.(k) in
  let init : (int * int, int) Hashtbl.t = Hashtbl.create 512 in
  Array.iteri (fun k d -> List.iteri (fun q cell -> Hashtbl.replace init (k, offset_of k cell) (((q * 3 + k * 5) mod 7) - 2)) (all_idx d)) pdims;
  let m0 : nat -> z -> z = fun p a -> match Hashtbl.find_opt init (int_of_nat p, int_of_z a) with Some v -> z_of_int v | None -> z_of_int (-9999) in
  try while true do
    let line = input_line stdin in
    let sp = String.index line ' ' in
    let id = String.sub line 0 sp in
    let s = parse (String.sub line (sp + 1) (String.length line - sp - 1)) in
    let buf = Buffer.create 1024 in
    Buffer.add_string buf (id ^ " ");
    let result_vals l = Buffer.add_string buf "R"; List.iter (fun v -> Buffer.add_string buf (" " ^ string_of_int (int_of_z v))) l in
    let mfin = match s with
      | L [A "assign"; t; e] -> assign (pv t) (ex e) m0
      | L [A "op"; A o; t; e] -> assign_op (binop_of o) (pv t) (ex e) m0
      | L [A "where"; t; mk; e] -> assign_where (pv t) (ex mk) (ex e) m0
      | L [A "fill"; t; A c] -> fill (pv t) (z_of_int (int_of_string c)) m0
      | L [A "reduce"; A kind; L d; e] ->
        let ds = List.map z_of_int (ints d) in
        let e' = ex e in
        let f, z0 = (match kind with
          | "sum" -> (fun a b -> Model.Z.add a b), Z0
          | "product" -> (fun a b -> Model.Z.mul a b), z_of_int 1
          | "maxval" -> (fun a b -> Model.Z.max a b), z_of_int (-1000000)
          | "minval" -> (fun a b -> Model.Z.min a b), z_of_int 1000000
          | k -> failwith k) in
        result_vals [reduce_all f z0 e' ds m0]; m0
      | L [A "sumdim"; A dim; L d; e] ->
        let dd = ints d in let dim = int_of_string dim in
        let e' = ex e in
        let out_dims = List.filteri (fun k _ -> k <> dim) dd in
        let n = List.nth dd dim in
        result_vals (List.map (fun oi ->
          List.fold_left (fun acc kk ->
            let full = List.concat [List.filteri (fun t _ -> t < dim) oi; [kk]; List.filteri (fun t _ -> t >= dim) oi] in
            Model.Z.add acc (eval e' m0 (List.map z_of_int full))) Z0 (range 0 n)) (all_idx out_dims));
        m0
      | _ -> failwith "stmt" in
    Array.iteri (fun k d ->
      Buffer.add_string buf (" | " ^ names.(k));
      List.iter (fun cell -> Buffer.add_string buf (" " ^ string_of_int (int_of_z (mfin (nat_of_int k) (z_of_int (offset_of k cell)))))) (all_idx d)) pdims;
    print_endline (Buffer.contents buf)
  done with End_of_file -> ()
