(* C02/C13 driver.  argv: M.  One case per line:
   ng NS { lhs k { q idx }*k }*NS  nseg {start count step}*  nseg {start count step}*      (multiplier = q/4)
   Output sections, each "NAME v v ..." joined by " | " (see harness/c02_jacobian.cpp) *)
open Model
open Zutil
let sentinel = -777.0
let () =
  let mm = int_of_string Sys.argv.(1) in
  let mM = nat_of_int mm in
  try while true do
    let line = input_line stdin in
    let toks = ref (List.map int_of_string (split_ws line)) in
    let next () = match !toks with x :: r -> toks := r; x | [] -> failwith "short line" in
    let ng = next () in
    let ns = next () in
    let tape = List.map (fun _ ->
        let l = next () in let k = next () in
        let ops = List.map (fun _ -> let q = next () in let i = next () in (float_of_int q /. 4.0, nat_of_int i)) (range 0 k) in
        { lhs = nat_of_int l; rhs = drop_zeros float_ops ops }) (range 0 ns) in
    let segs () = let k = next () in List.concat (List.map (fun _ ->
        let st = next () in let c = next () in let sp = next () in List.map (fun i -> st + i*sp) (range 0 c)) (range 0 k)) in
    let indeps = segs () in let deps = segs () in
    let ni = List.length indeps and nd = List.length deps in
    let ind_n = List.map nat_of_int indeps and dep_n = List.map nat_of_int deps in
    let buf = Buffer.create 1024 in
    let sec name vals = Buffer.add_string buf name; List.iter (fun v -> Buffer.add_char buf ' '; Buffer.add_string buf (fstr v)) vals; Buffer.add_string buf " | " in
    Buffer.add_string buf (Printf.sprintf "N %d %d | " ni nd);
    (* tangent passes: column j *)
    sec "F" (List.concat (List.map (fun j -> let g = fwd_sweep float_ops tape (unit_vec float_ops (nat_of_int j)) in List.map (fun d -> g (nat_of_int d)) deps) indeps));
    (* adjoint passes: row i *)
    sec "R" (List.concat (List.map (fun d -> let g = rev_sweep float_ops tape (unit_vec float_ops (nat_of_int d)) in List.map (fun j -> g (nat_of_int j)) indeps) deps));
    let mem_of writes base size =
      let mem = apply_writes writes (fun _ -> sentinel) in
      List.map (fun a -> mem (z_of_int (a - base))) (range 0 size) in
    let m = nd and n = ni in
    if m > 0 && n > 0 then begin
    let routine r d i = match r with
      | 0 -> jac_fwd_serial float_ops mM tape ind_n dep_n (z_of_int d) (z_of_int i)
      | 1 -> jac_rev_serial float_ops mM tape ind_n dep_n (z_of_int d) (z_of_int i)
      | _ -> jac_auto float_ops mM tape ind_n dep_n (z_of_int d) (z_of_int i) in
    (* raw pointer, defaults (dep_offset=1, indep_offset=0): column-major m x n *)
    List.iter (fun (nm,r) -> sec nm (mem_of (routine r 1 0) 0 (m*n))) ["PF",0; "PR",1; "PA",2];
    (* raw pointer, (0,1): row-major *)
    List.iter (fun (nm,r) -> sec nm (mem_of (routine r 0 1) 0 (m*n))) ["QF",0; "QR",1];
    (* Matrix(m,n) row-major: offset(0)=n, offset(1)=1 *)
    List.iter (fun (nm,r) -> sec nm (mem_of (routine r n 1) 0 (m*n))) ["MF",0; "MR",1; "MA",2];
    (* transposed target B(n,m).T(): offset(0)=1, offset(1)=m *)
    List.iter (fun (nm,r) -> sec nm (mem_of (routine r 1 m) 0 (m*n))) ["TF",0; "TR",1; "TA",2];
    (* strided view of big(2m+1,3n+2): rows 1,3,.. cols 2,5,..: offset(0)=2(3n+2), offset(1)=3, base=(3n+2)+2 *)
    let w = 3*n+2 in
    List.iter (fun (nm,r) -> sec nm (mem_of (routine r (2*w) 3) (w+2) ((2*m+1)*w))) ["SF",0; "SR",1; "SA",2];
    (* OpenMP routines in two block orders *)
    let nbf = int_of_nat (omp_blocks mM (nat_of_int n)) and nbr = int_of_nat (omp_blocks mM (nat_of_int m)) in
    let ordf = List.map nat_of_int (range 0 nbf) and ordr = List.map nat_of_int (range 0 nbr) in
    sec "OF" (mem_of (jac_fwd_omp float_ops mM tape ind_n dep_n ordf (z_of_int 1) (z_of_int 0)) 0 (m*n));
    sec "OFr" (mem_of (jac_fwd_omp float_ops mM tape ind_n dep_n (List.rev ordf) (z_of_int 1) (z_of_int 0)) 0 (m*n));
    sec "OR" (mem_of (jac_rev_omp float_ops mM tape ind_n dep_n ordr (z_of_int 1) (z_of_int 0)) 0 (m*n));
    sec "ORr" (mem_of (jac_rev_omp float_ops mM tape ind_n dep_n (List.rev ordr) (z_of_int 1) (z_of_int 0)) 0 (m*n))
    end;
    print_endline (Buffer.contents buf)
  done with End_of_file -> ()
