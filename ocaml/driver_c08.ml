(* C08 driver: one history per input line, tokens  R1 | R<n> | U<k> | N ; prints after every step
   ret,i_gradient,max_gradient,n_registered,gaps  separated by '|' *)
open Model
open Zutil
let show_state (s:st) (ret:int) : string =
  let g = String.concat ";" (List.map (fun (a,b) -> Printf.sprintf "%d-%d" (int_of_z a) (int_of_z b)) s.gaps) in
  Printf.sprintf "%d,%d,%d,%d,%s" ret (int_of_z s.ig) (int_of_z s.mg) (int_of_z s.nreg) g
let () =
  try while true do
    let line = input_line stdin in
    let toks = split_ws line in
    let buf = Buffer.create 256 in
    let _ = List.fold_left (fun (s,l) tok ->
      let o = match tok.[0] with
        | 'R' -> let n = int_of_string (String.sub tok 1 (String.length tok - 1)) in
                 if tok = "R1" then OReg1 else ORegN (z_of_int n)
        | 'U' -> OUnreg (nat_of_int (int_of_string (String.sub tok 1 (String.length tok - 1))))
        | _ -> ONewRec in
      let (s',l') = step (s,l) o in
      let ret = match o with
        | OReg1 | ORegN _ -> (match l' with (r,_)::_ -> int_of_z r | [] -> -1)
        | _ -> -1 in
      Buffer.add_string buf (show_state s' ret); Buffer.add_char buf '|';
      (s',l')) (init, []) toks in
    print_endline (Buffer.contents buf)
  done with End_of_file -> ()
