(* C20 driver: the extracted interpolation model on OCaml doubles.  Values are given as integers k meaning k/16.
   D1 opts c nx x.. m y(nx*m) nq q..
   D2 opts c nx x.. ny y.. m M(nx*ny*m) nq qx.. qy..
   D3 opts c nx x.. ny y.. nz z.. m M(nx*ny*nz*m) nq qx.. qy.. qz..
   output: "OK v v v ..." (row-major: query, trailing) or "EXC array_exception" / "EXC size_mismatch" *)
open Model
open Zutil
let rec n_of_int (k:int) : n = if k = 0 then N0 else Npos (pos_of_int k)
let () =
  try while true do
    let line = input_line stdin in
    let toks = ref (split_ws line) in
    let next () = match !toks with x :: r -> toks := r; x | [] -> failwith "short" in
    let nexti () = int_of_string (next ()) in
    let nextf () = let t = next () in if t = "nan" then nan else if t = "inf" then infinity else if t = "-inf" then neg_infinity else float_of_int (int_of_string t) /. 16.0 in
    let vec () = let k = nexti () in List.map (fun _ -> nextf ()) (range 0 k) in
    let kind = next () in
    let opts = nexti () in
    let c = nextf () in
    let show r = match r with
      | Ok rows -> "OK" ^ String.concat "" (List.map (fun row -> String.concat "" (List.map (fun v -> " " ^ fstr v) row)) rows)
      | ArrayException -> "EXC array_exception"
      | SizeMismatch -> "EXC size_mismatch" in
    (match kind with
     | "D1" | "A1" ->
       let x = vec () in let m = nexti () in
       let ny = nexti () in
       let y = List.map (fun _ -> List.map (fun _ -> nextf ()) (range 0 m)) (range 0 ny) in
       let q = vec () in
       print_endline (show (interp1 float_ops (m > 1) (n_of_int opts) x y c q))
     | "D2" ->
       let x = vec () in let y = vec () in let m = nexti () in
       let mm = List.map (fun _ -> List.map (fun _ -> List.map (fun _ -> nextf ()) (range 0 m)) (range 0 (List.length y))) (range 0 (List.length x)) in
       let qx = vec () in let qy = vec () in
       print_endline (show (interp2d float_ops (n_of_int opts) x y mm c qx qy))
     | "D3" ->
       let x = vec () in let y = vec () in let z = vec () in let m = nexti () in
       let mm = List.map (fun _ -> List.map (fun _ -> List.map (fun _ -> List.map (fun _ -> nextf ()) (range 0 m)) (range 0 (List.length z))) (range 0 (List.length y))) (range 0 (List.length x)) in
       let qx = vec () in let qy = vec () in let qz = vec () in
       print_endline (show (interp3d float_ops (n_of_int opts) x y z mm c qx qy qz))
     | _ -> print_endline "?")
  done with End_of_file -> ()
