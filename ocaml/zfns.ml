(* function table shared by the C01 and C03 drivers: OCaml float versions of the functions of Gen_Ops *)
open Model
open Zutil
let fname_of = function
  | "log" -> F_log | "log10" -> F_log10 | "sin" -> F_sin | "cos" -> F_cos | "tan" -> F_tan | "asin" -> F_asin | "acos" -> F_acos
  | "atan" -> F_atan | "sinh" -> F_sinh | "cosh" -> F_cosh | "abs" -> F_abs | "fabs" -> F_fabs | "sqrt" -> F_sqrt | "tanh" -> F_tanh
  | "exp" -> F_exp | "fastexp" -> F_fastexp | "ceil" -> F_ceil | "floor" -> F_floor | "log2" -> F_log2 | "expm1" -> F_expm1
  | "exp2" -> F_exp2 | "log1p" -> F_log1p | "asinh" -> F_asinh | "acosh" -> F_acosh | "atanh" -> F_atanh | "erf" -> F_erf
  | "erfc" -> F_erfc | "cbrt" -> F_cbrt | "round" -> F_round | "trunc" -> F_trunc | "rint" -> F_rint | "nearbyint" -> F_nearbyint
  | "uplus" -> F_uplus | "uminus" -> F_uminus | s -> failwith ("function " ^ s)
(* C's rint / nearbyint in the default rounding mode; the sign of a zero result is that of the argument (rint(-0.3) = -0.0) *)
let rint x = if Float.abs x >= 4503599627370496.0 then x else let m = if x >= 0.0 then 4503599627370496.0 else -4503599627370496.0 in Float.copy_sign ((x +. m) -. m) x
let f1 f x = match f with
  | F_log -> log x | F_log10 -> log10 x | F_sin -> sin x | F_cos -> cos x | F_tan -> tan x | F_asin -> asin x | F_acos -> acos x
  | F_atan -> atan x | F_sinh -> sinh x | F_cosh -> cosh x | F_abs -> Float.abs x | F_fabs -> Float.abs x | F_sqrt -> sqrt x
  | F_tanh -> tanh x | F_exp -> exp x | F_fastexp -> exp x | F_ceil -> ceil x | F_floor -> floor x | F_log2 -> Float.log2 x
  | F_expm1 -> Float.expm1 x | F_exp2 -> Float.exp2 x | F_log1p -> Float.log1p x | F_asinh -> Float.log (x +. sqrt (x *. x +. 1.0))
  | F_acosh -> Float.log (x +. sqrt (x *. x -. 1.0)) | F_atanh -> 0.5 *. Float.log1p (2.0 *. x /. (1.0 -. x)) | F_erf -> Float.erf x
  | F_erfc -> Float.erfc x | F_cbrt -> Float.cbrt x | F_round -> Float.round x | F_trunc -> Float.trunc x | F_rint -> rint x
  | F_nearbyint -> rint x | F_uplus -> x | F_uminus -> -. x | F_fast_sqr -> x *. x | _ -> nan
let f2 f x y = match f with F_pow -> Float.pow x y | F_atan2 -> Float.atan2 x y | _ -> nan
let rec float_of_z_big (x : z) : float = match x with
  | Z0 -> 0.0
  | Zpos p -> let rec fp = function XH -> 1.0 | XO q -> 2.0 *. fp q | XI q -> 2.0 *. fp q +. 1.0 in fp p
  | Zneg p -> -. (float_of_z_big (Zpos p))
let ff : float fOps = { fbase = float_ops; f1 = f1; f2 = f2; flit = (fun n d -> float_of_z_big n /. float_of_z_big d) }
let kind_of = function "add" -> KAdd | "sub" -> KSub | "mul" -> KMul | "div" -> KDiv | "pow" -> KPow | "atan2" -> KAtan2 | "max" -> KMax | "min" -> KMin | s -> failwith s
