(* C01 driver: one program per line
     <id> <nvars> | v0 v1 .. (initial values) | outs y.. | (stmt) (stmt) ...
   statements: (setp x c) (sete x e) (addp x c); expressions: (var x) (const c) (recip c) (un f e) (bin k l r)
   prints  <id> V v..  ;  <id> G y g0.. (reverse sweep over the model's tape)  ;  <id> D y d0.. (dual-number spec) ;
           <id> N #statements #operations *)
open Model
open Zutil
type sx = A of string | L of sx list
let parse (s : string) : sx list =
  let n = String.length s in
  let pos = ref 0 in
  let rec skip () = if !pos < n && (s.[!pos] = ' ' || s.[!pos] = '\t') then (incr pos; skip ()) in
  let rec item () =
    skip ();
    if s.[!pos] = '(' then begin
      incr pos; let l = ref [] in
      skip ();
      while s.[!pos] <> ')' do l := item () :: !l; skip () done;
      incr pos; L (List.rev !l) end
    else begin
      let st = !pos in
      while !pos < n && s.[!pos] <> ' ' && s.[!pos] <> ')' && s.[!pos] <> '(' do incr pos done;
      A (String.sub s st (!pos - st)) end in
  let out = ref [] in
  skip ();
  while !pos < n do out := item () :: !out; skip () done;
  List.rev !out
let fname_of = function
  | "log" -> F_log | "log10" -> F_log10 | "sin" -> F_sin | "cos" -> F_cos | "tan" -> F_tan | "asin" -> F_asin | "acos" -> F_acos
  | "atan" -> F_atan | "sinh" -> F_sinh | "cosh" -> F_cosh | "abs" -> F_abs | "fabs" -> F_fabs | "sqrt" -> F_sqrt | "tanh" -> F_tanh
  | "exp" -> F_exp | "fastexp" -> F_fastexp | "ceil" -> F_ceil | "floor" -> F_floor | "log2" -> F_log2 | "expm1" -> F_expm1
  | "exp2" -> F_exp2 | "log1p" -> F_log1p | "asinh" -> F_asinh | "acosh" -> F_acosh | "atanh" -> F_atanh | "erf" -> F_erf
  | "erfc" -> F_erfc | "cbrt" -> F_cbrt | "round" -> F_round | "trunc" -> F_trunc | "rint" -> F_rint | "nearbyint" -> F_nearbyint
  | "uplus" -> F_uplus | "uminus" -> F_uminus | s -> failwith ("function " ^ s)
let rint x = if Float.abs x >= 4503599627370496.0 then x else let m = if x >= 0.0 then 4503599627370496.0 else -4503599627370496.0 in (x +. m) -. m
let f1 f x = match f with
  | F_log -> log x | F_log10 -> log10 x | F_sin -> sin x | F_cos -> cos x | F_tan -> tan x | F_asin -> asin x | F_acos -> acos x
  | F_atan -> atan x | F_sinh -> sinh x | F_cosh -> cosh x | F_abs -> Float.abs x | F_fabs -> Float.abs x | F_sqrt -> sqrt x
  | F_tanh -> tanh x | F_exp -> exp x | F_fastexp -> exp x | F_ceil -> ceil x | F_floor -> floor x | F_log2 -> Float.log2 x
  | F_expm1 -> Float.expm1 x | F_exp2 -> Float.exp2 x | F_log1p -> Float.log1p x | F_asinh -> Float.log (x +. sqrt (x *. x +. 1.0))
  | F_acosh -> Float.log (x +. sqrt (x *. x -. 1.0)) | F_atanh -> 0.5 *. Float.log1p (2.0 *. x /. (1.0 -. x)) | F_erf -> Float.erf x
  | F_erfc -> Float.erfc x | F_cbrt -> Float.cbrt x | F_round -> Float.round x | F_trunc -> Float.trunc x | F_rint -> rint x
  | F_nearbyint -> rint x | F_uplus -> x | F_uminus -> -. x | F_fast_sqr -> x *. x | _ -> nan
let f2 f x y = match f with F_pow -> Float.pow x y | F_atan2 -> Float.atan2 x y | _ -> nan
let rec float_of_z_big (x : z) : float = match x with
  | Z0 -> 0.0
  | Zpos p -> let rec fp = function XH -> 1.0 | XO q -> 2.0 *. fp q | XI q -> 2.0 *. fp q +. 1.0 in fp p
  | Zneg p -> -. (float_of_z_big (Zpos p))
let ff : float fOps = { fbase = float_ops; f1 = f1; f2 = f2; flit = (fun n d -> float_of_z_big n /. float_of_z_big d) }
let kind_of = function "add" -> KAdd | "sub" -> KSub | "mul" -> KMul | "div" -> KDiv | "pow" -> KPow | "atan2" -> KAtan2 | "max" -> KMax | "min" -> KMin | s -> failwith s
let rec ex = function
  | L [A "var"; A x] -> PVar (nat_of_int (int_of_string x))
  | L [A "const"; A c] -> PConst (float_of_string c)
  | L [A "recip"; A c] -> PConst (1.0 /. float_of_string c)
  | L [A "un"; A f; e] -> PUn (fname_of f, ex e)
  | L [A "bin"; A k; l; r] -> PBin (kind_of k, ex l, ex r)
  | _ -> failwith "expr"
let st = function
  | L [A "setp"; A x; A c] -> PSetP (nat_of_int (int_of_string x), float_of_string c)
  | L [A "sete"; A x; e] -> PSetE (nat_of_int (int_of_string x), ex e)
  | L [A "addp"; A x; A c] -> PAddP (nat_of_int (int_of_string x), float_of_string c)
  | _ -> failwith "stmt"
let () =
  try while true do
    let line = input_line stdin in
    (match String.split_on_char '|' line with
     | [hd; vals; outs; body] ->
       let id, nv = (match split_ws hd with [a; b] -> a, int_of_string b | _ -> failwith "head") in
       let v0 = Array.of_list (List.map float_of_string (split_ws vals)) in
       let outs = List.map int_of_string (List.tl (split_ws outs)) in
       let prog = List.map st (parse body) in
       let vals0 = fun (i : nat) -> let k = int_of_nat i in if k < Array.length v0 then v0.(k) else 0.0 in
       let (vals, tape) = exec ff prog vals0 in
       Printf.printf "%s V %s\n" id (String.concat " " (List.map (fun k -> fstr (vals (nat_of_int k))) (range 0 nv)));
       List.iter (fun y ->
         let g = rev_sweep float_ops tape (unit_vec float_ops (nat_of_int y)) in
         Printf.printf "%s G %d %s\n" id y (String.concat " " (List.map (fun k -> fstr (g (nat_of_int k))) (range 0 nv)));
         let d = List.map (fun x -> let (_, t) = dexec ff prog vals0 (unit_vec float_ops (nat_of_int x)) in t (nat_of_int y)) (range 0 nv) in
         Printf.printf "%s D %d %s\n" id y (String.concat " " (List.map fstr d))) outs;
       Printf.printf "%s N %d %d\n" id (List.length tape) (List.fold_left (fun a s -> a + List.length s.rhs) 0 tape)
     | _ -> ())
  done with End_of_file -> ()
