(* C01 driver: one program per line
     <id> <nvars> | v0 v1 .. (initial values) | outs y.. | (stmt) (stmt) ...
   statements: (setp x c) (sete x e) (addp x c); expressions: (var x) (const c) (recip c) (un f e) (bin k l r)
   prints  <id> V v..  ;  <id> G y g0.. (reverse sweep over the model's tape)  ;  <id> D y d0.. (dual-number spec) ;
           <id> N #statements #operations *)
open Model
open Zutil
type sx = A of string | L of sx list
let parse (s : string) : sx list =
  let n = String.length s in
  let pos = ref 0 in
  let rec skip () = if !pos < n && (s.[!pos] = ' ' || s.[!pos] = '\t') then (incr pos; skip ()) in
  let rec item () =
    skip ();
    if s.[!pos] = '(' then begin
      incr pos; let l = ref [] in
      skip ();
      while s.[!pos] <> ')' do l := item () :: !l; skip () done;
      incr pos; L (List.rev !l) end
    else begin
      let st = !pos in
      while !pos < n && s.[!pos] <> ' ' && s.[!pos] <> ')' && s.[!pos] <> '(' do incr pos done;
      A (String.sub s st (!pos - st)) end in
  let out = ref [] in
  skip ();
  while !pos < n do out := item () :: !out; skip () done;
  List.rev !out
open Zfns
let rec ex = function
  | L [A "var"; A x] -> PVar (nat_of_int (int_of_string x))
  | L [A "const"; A c] -> PConst (float_of_string c)
  | L [A "recip"; A c] -> PConst (1.0 /. float_of_string c)
  | L [A "un"; A f; e] -> PUn (fname_of f, ex e)
  | L [A "bin"; A k; l; r] -> PBin (kind_of k, ex l, ex r)
  | _ -> failwith "expr"
let st = function
  | L [A "setp"; A x; A c] -> PSetP (nat_of_int (int_of_string x), float_of_string c)
  | L [A "sete"; A x; e] -> PSetE (nat_of_int (int_of_string x), ex e)
  | L [A "addp"; A x; A c] -> PAddP (nat_of_int (int_of_string x), float_of_string c)
  | _ -> failwith "stmt"
let () =
  try while true do
    let line = input_line stdin in
    (match String.split_on_char '|' line with
     | [hd; vals; outs; body] ->
       let id, nv = (match split_ws hd with [a; b] -> a, int_of_string b | _ -> failwith "head") in
       let v0 = Array.of_list (List.map float_of_string (split_ws vals)) in
       let outs = List.map int_of_string (List.tl (split_ws outs)) in
       let prog = List.map st (parse body) in
       let vals0 = fun (i : nat) -> let k = int_of_nat i in if k < Array.length v0 then v0.(k) else 0.0 in
       let (vals, tape) = exec ff prog vals0 in
       Printf.printf "%s V %s\n" id (String.concat " " (List.map (fun k -> fstr (vals (nat_of_int k))) (range 0 nv)));
       List.iter (fun y ->
         let g = rev_sweep float_ops tape (unit_vec float_ops (nat_of_int y)) in
         Printf.printf "%s G %d %s\n" id y (String.concat " " (List.map (fun k -> fstr (g (nat_of_int k))) (range 0 nv)));
         let d = List.map (fun x -> let (_, t) = dexec ff prog vals0 (unit_vec float_ops (nat_of_int x)) in t (nat_of_int y)) (range 0 nv) in
         Printf.printf "%s D %d %s\n" id y (String.concat " " (List.map fstr d))) outs;
       Printf.printf "%s N %d %d\n" id (List.length tape) (List.fold_left (fun a s -> a + List.length s.rhs) 0 tape)
     | _ -> ())
  done with End_of_file -> ()
