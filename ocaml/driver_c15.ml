(* C15 driver: lines  "D mm m k n | ls0 ls1 | rs0 rs1 | values"  /  "D mv m k 1 | ls0 ls1 | inc 0 | values" from the harness.
   Rebuilds a memory image from the strides (left operand at 100000, right operand at 500000; logical element (i,q) of the
   left operand is ival(i,q,1), (q,j) of the right ival(q,j,2), as in the harness), runs the extracted marshalling model
   and prints the product, or "copy" when the model says the operand is first copied. *)
open Model
open Zutil
let ival i j salt = float_of_int (((i * 7 + j * 3 + salt * 5) mod 9) - 4)
let () =
  try while true do
    let line = input_line stdin in
    (match String.split_on_char '|' line with
     | hd :: ls :: rs :: _ ->
       (match split_ws hd, List.map int_of_string (split_ws ls), List.map int_of_string (split_ws rs) with
        | ["D"; kind; m; k; n], [ls0; ls1], [rs0; rs1] ->
          let m = int_of_string m and k = int_of_string k and n = int_of_string n in
          let tbl : (int, float) Hashtbl.t = Hashtbl.create 256 in
          let lb = 100000 and rb = 500000 in
          for i = 0 to m - 1 do for q = 0 to k - 1 do Hashtbl.replace tbl (lb + i * ls0 + q * ls1) (ival i q 1) done done;
          if kind = "mm" then (for q = 0 to k - 1 do for j = 0 to n - 1 do Hashtbl.replace tbl (rb + q * rs0 + j * rs1) (ival q j 2) done done)
          else (for q = 0 to k - 1 do Hashtbl.replace tbl (rb + q * rs0) (ival q 1 2) done);
          let mem = fun (a : z) -> match Hashtbl.find_opt tbl (int_of_z a) with Some v -> v | None -> nan in
          let lv = { mb = z_of_int lb; ms0 = z_of_int ls0; ms1 = z_of_int ls1; md0 = z_of_int m; md1 = z_of_int k } in
          let cells =
            if kind = "mm" then
              let rv = { mb = z_of_int rb; ms0 = z_of_int rs0; ms1 = z_of_int rs1; md0 = z_of_int k; md1 = z_of_int n } in
              List.concat (List.map (fun i -> List.map (fun j -> adept_gemm_cell float_ops mem lv rv (z_of_int i) (z_of_int j)) (range 0 n)) (range 0 m))
            else
              let xv = { vb = z_of_int rb; vinc = z_of_int rs0; vlen = z_of_int k } in
              List.map (fun i -> adept_gemv_cell float_ops mem lv xv (z_of_int i)) (range 0 m) in
          if List.exists (fun c -> c = None) cells then print_endline "copy"
          else print_endline (String.concat " " (List.map (function Some v -> fstr v | None -> "?") cells))
        | _ -> print_endline "?")
     | _ -> print_endline "?")
  done with End_of_file -> ()
