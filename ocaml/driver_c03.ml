(* C03 driver: element-wise statements  T = e  over rank-1 arrays X Y Z T (active), P (passive), active scalar s.
   input:  <id> <n> | <sexpr of e> | x.. y.. z.. t.. P.. s
   gradient indices: X 0.., Y n.., Z 2n.., T 3n.., s 4n.
   output: <id> V t0 .. t(n-1)    and   <id> J  row-major n x (4n+1) Jacobian of T w.r.t. X Y Z T s (reverse sweeps over the model tape) *)
open Model
open Zutil
let ( |> ) x f = f x
type sx = A of string | L of sx list
let parse (s : string) : sx =
  let n = String.length s in
  let pos = ref 0 in
  let rec skip () = if !pos < n && (s.[!pos] = ' ' || s.[!pos] = '\t') then (incr pos; skip ()) in
  let rec item () =
    skip ();
    if s.[!pos] = '(' then begin
      incr pos; let l = ref [] in
      skip ();
      while s.[!pos] <> ')' do l := item () :: !l; skip () done;
      incr pos; L (List.rev !l) end
    else begin
      let st = !pos in
      while !pos < n && s.[!pos] <> ' ' && s.[!pos] <> ')' && s.[!pos] <> '(' do incr pos done;
      A (String.sub s st (!pos - st)) end in
  item ()
let () =
  try while true do
    let line = input_line stdin in
    (match String.split_on_char '|' line with
     | [hd; body; vals] ->
       let id, n = (match split_ws hd with [a; b] -> a, int_of_string b | _ -> failwith "head") in
       let v = Array.of_list (List.map float_of_string (split_ws vals)) in
       let pdata = fun (i : nat) -> v.(4 * n + int_of_nat i) in
       let rec ex = function
         | A "X" -> AArr (LAct (nat_of_int 0, nat_of_int 1)) | A "Y" -> AArr (LAct (nat_of_int n, nat_of_int 1))
         | A "Z" -> AArr (LAct (nat_of_int (2 * n), nat_of_int 1)) | A "T" -> AArr (LAct (nat_of_int (3 * n), nat_of_int 1))
         | A "P" -> AArr (LPas pdata) | A "s" -> AVar (nat_of_int (4 * n))
         | L [A "const"; A c] -> AConst (float_of_string c)
         | L [A "un"; A f; e] -> AUn (Zfns.fname_of f, ex e)
         | L [A "bin"; A k; l; r] -> ABin (Zfns.kind_of k, ex l, ex r)
         | _ -> failwith "expr" in
       let e = ex (parse body) in
       let vals0 = fun (i : nat) -> let k = int_of_nat i in if k < 4 * n then v.(k) else if k = 4 * n then v.(5 * n) else 0.0 in
       let (vals, tape) = aexec Zfns.ff (nat_of_int (3 * n)) (nat_of_int 1) (nat_of_int n) e vals0 in
       Printf.printf "%s V %s\n" id (String.concat " " (List.map (fun i -> fstr (vals (nat_of_int (3 * n + i)))) (range 0 n)));
       let rows = List.map (fun o ->
           let g = rev_sweep float_ops tape (unit_vec float_ops (nat_of_int (3 * n + o))) in
           String.concat " " (List.map (fun k -> fstr (g (nat_of_int k))) (range 0 (4 * n + 1)))) (range 0 n) in
       Printf.printf "%s J %s\n" id (String.concat " " rows)
     | _ -> ())
  done with End_of_file -> ()
