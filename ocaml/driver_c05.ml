(* C05 driver: reads the harness lines
     A type w rank rows n cls mt ma mb mc lhs_ok head packets tail ...   (assignment statements)
     R type w rank rows n kind ma mb head packets tail ...               (reductions)
   and prints, for each, the counters the model VecSplit.stmt_counts / reduce_counts predicts:
     <lineno> h p t *)
open Model
open Zutil
let () =
  let ln = ref 0 in
  try while true do
    let line = input_line stdin in
    incr ln;
    let t = Array.of_list (split_ws line) in
    if Array.length t > 0 && t.(0) = "A" then begin
      let i k = int_of_string t.(k) in
      let w = i 2 and rows = i 4 and n = i 5 and cls = i 6 and mt = i 7 and ma = i 8 and mb = i 9 and mc = i 10 and ok = i 11 in
      (* a non-contiguous operand is marked by lhs_ok = 0 on rank-1 lines that used a strided operand *)
      let arr a = VArr (z_of_int a, true) in
      let e = match cls with
        | 0 -> VUn (arr ma)
        | 1 -> VBin (arr ma, arr mb)
        | 2 -> VBin (VBin (arr ma, arr mb), arr mc)
        | _ -> VBin (arr ma, VScal) in
      let ((h, p), tl) = stmt_counts (z_of_int w) (z_of_int rows) (z_of_int n) (z_of_int mt) (ok = 1) e in
      Printf.printf "%d %d %d %d\n" !ln (int_of_z h) (int_of_z p) (int_of_z tl)
    end else if Array.length t > 0 && t.(0) = "R" then begin
      let i k = int_of_string t.(k) in
      let w = i 2 and rows = i 4 and n = i 5 and kind = i 6 and ma = i 7 and mb = i 8 in
      let arr a = VArr (z_of_int a, true) in
      let e = if kind = 6 then VBin (arr ma, arr mb) else arr ma in
      let ((h, p), tl) = reduce_counts (z_of_int w) (z_of_int rows) (z_of_int n) e in
      Printf.printf "%d %d %d %d\n" !ln (int_of_z h) (int_of_z p) (int_of_z tl)
    end
    else if Array.length t > 0 && t.(0) = "G" then begin
      (* G type w rank d0..d(r-1) kind mt st0.. ma sa0.. head packets tail mism *)
      let i k = int_of_string t.(k) in
      let w = i 2 and r = i 3 in
      let dims = List.map (fun k -> i (4 + k)) (range 0 r) in
      let kind = i (4 + r) and mt = i (5 + r) in
      let st = List.map (fun k -> z_of_int (i (6 + r + k))) (range 0 r) in
      let ma = i (6 + 2 * r) in
      let sa = List.map (fun k -> z_of_int (i (7 + 2 * r + k))) (range 0 r) in
      let n = List.nth dims (r - 1) in
      let rows = List.fold_left ( * ) 1 (List.filteri (fun k _ -> k < r - 1) dims) in
      let zw = z_of_int w in
      let a = VArr (z_of_int ma, rows_ok zw sa) in
      let ((h, p), tl) =
        if kind = 0 then stmt_counts zw (z_of_int rows) (z_of_int n) (z_of_int mt) (rows_ok zw st) (VBin (a, a))
        else reduce_counts zw (z_of_int rows) (z_of_int n) a in
      Printf.printf "%d %d %d %d\n" !ln (int_of_z h) (int_of_z p) (int_of_z tl)
    end
  done with End_of_file -> ()
